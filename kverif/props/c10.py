"""C10 - degrees of freedom, goodness of fit and chi2 probability follow the documented formulas.

single: every fit type x cost class x constraints x histories of fix/release x parameter points, before and after do_fit.
multi:  MultiFits of 1-3 members (xy / indexed / hist) with overlapping parameter names, constraints on the multi-fit and on
        members, fix/release on the multi-fit.
Oracle: ndf = N_data + N_constraint_rows - N_par + N_fixed (exact); gof = cost - saturated cost (chi2: r^T V^-1 r + constraints,
independent of the determinant term); chi2 probability = chi2.sf(cost - ln det V, ndf) for chi2-type costs, None otherwise.
"""
import numpy as np
from hypothesis import strategies as st
from scipy import linalg
from scipy.stats import chi2 as chi2_dist
from scipy.stats import norm, poisson

from .. import fitspec as fs
from .. import strategies as S
from ..core import Discard, Violation, expect_exact, guard
from ..runner import Sub

PROPERTY = "C10"
RULE = ("single fits and multi-fits with generated fix/release histories and constraints; non-trivial = at least one constraint "
        "(simple or matrix) or a fix/release after construction or a multi-fit with a shared parameter; distinct by case hash")
ASSUMPTIONS = [
    "reference gof: chi2-type = r^T V^-1 r (+ constraint cost), pointwise = sum (r/sigma)^2, no-errors = sum r^2, Poisson/Gaussian NLL = "
    "cost - cost(model:=data), ratio identifiers = cost, Gauss approximation = r^T Vtilde^-1 r; unbinned: None (documented)",
    "chi2 probability only defined for chi2-type identifiers (None otherwise); compared with scipy.stats.chi2.sf at 1e-9 relative + 1e-12",
    "positive-definite total covariance with cond <= 1e6, otherwise discarded",
]

COSTS_SINGLE = ["chi2", "chi2", "chi2_covariance", "chi2_fast", "chi2_pointwise", "chi2_no_errors", "nll_gaussian", "nllr_gaussian", "nll", "nllr",
                "gauss_approximation", "gauss_approximation_pointwise"]
COUNT = fs.NLL_POISSON | fs.NLLR_POISSON | fs.GA_COV | fs.GA_POINT
POIS = fs.NLL_POISSON | fs.NLLR_POISSON


def ref_gof(ref, p):
    cid = ref.spec["cost"]
    if ref.t == "unbinned":
        return None
    con = ref.constraint_cost(p)
    m = ref.model(p)
    r = ref.d - m
    if cid in fs.CHI2_NOERR or (cid == "chi2" and not ref.has_sources()):
        return float(r @ r + con)
    if cid in fs.NLL_POISSON or cid in fs.NLLR_POISSON:
        return float(-2.0 * (np.sum(poisson.logpmf(ref.d, mu=m)) - np.sum(poisson.logpmf(ref.d, mu=ref.d))) + con)
    V = ref.total_cov(p)
    sig = np.sqrt(np.diag(V))
    if cid in fs.CHI2_COV:
        return float(r @ linalg.cho_solve(linalg.cho_factor(V, lower=True), r) + con)
    if cid in fs.CHI2_POINTWISE:
        return float(np.sum((r / sig) ** 2) + con)
    if cid in fs.NLL_GAUSS or cid in fs.NLLR_GAUSS:
        return float(-2.0 * (np.sum(norm.logpdf(ref.d, loc=m, scale=sig)) - np.sum(norm.logpdf(ref.d, loc=ref.d, scale=sig))) + con)
    if cid in fs.GA_COV:
        Vt = V + np.diag(m)
        return float(r @ linalg.cho_solve(linalg.cho_factor(Vt, lower=True), r) + con)
    if cid in fs.GA_POINT:
        return float(np.sum(r ** 2 / (m + sig ** 2)) + con)
    raise KeyError(cid)


def is_chi2(cid):
    return cid in (fs.CHI2_COV | fs.CHI2_POINTWISE | fs.CHI2_NOERR)


def ref_chi2_for_probability(ref, p):
    """cost without its determinant term"""
    cid = ref.spec["cost"]
    return ref_gof(ref, p) if is_chi2(cid) else None


def _check_pd(ref, p):
    cid = ref.spec["cost"]
    if ref.t == "unbinned" or cid in POIS or cid in fs.CHI2_NOERR or (cid == "chi2" and not ref.has_sources()):
        return
    V = ref.total_cov(p)
    if cid in (fs.GA_COV | fs.GA_POINT):
        V = V + np.diag(ref.model(p))
    ev = np.linalg.eigvalsh(V)
    if ev.min() <= 0 or ev.max() / ev.min() > 1e6:
        raise Discard("total covariance not positive definite / cond > 1e6")


def _close(a, b, scale, loose=False):
    if loose:  # finite-difference slope of kafe2's x->y projection (non-polynomial or cubic model): C01 bounds it exactly, here 1e-4 suffices
        return abs(a - b) <= 1e-4 * (abs(a) + abs(b) + scale)
    return abs(a - b) <= 1e-8 * (abs(a) + abs(b)) + 1e-9 * scale


def _loose(ref):
    return ref.t == "xy" and any(s.get("axis") == "x" and s.get("enabled", True) for s in ref.spec["sources"]) and not (ref.fam.poly_degree is not None and ref.fam.poly_degree <= 2)


# ---------------------------------------------------------------------------------------------------

@st.composite
def strat_single(draw, tier="quick"):
    t = draw(st.sampled_from(["xy", "xy", "indexed", "hist", "unbinned"]))
    cost = draw(st.sampled_from(COSTS_SINGLE))
    pois = cost in COUNT
    nsrc = (0, 0) if cost in POIS else ((0, 3) if cost in ("chi2", "chi2_no_errors") else (1, 3))
    if t == "xy" and cost in ("chi2", "chi2_covariance", "chi2_pointwise") and draw(st.integers(0, 5)) == 0:
        # many points (the other generators stop at 8), any unit of y
        spec = draw(S.xy_long_spec(costs=(cost,), n_points=(20, 120) if tier == "quick" else (20, 400)))
    elif t == "xy":
        spec = draw(S.xy_spec(families=["const", "line", "expo", "gauss"] if pois else None, costs=(cost,), n_sources=nsrc, poisson_data=pois, fixed=True,
                              y_scales=(None, None, 1e-3, 1e-5, 1e-7, 1e4)))
    elif t == "indexed":
        spec = draw(S.indexed_spec(costs=(cost,), n_sources=nsrc, poisson_data=pois, fixed=True))
    elif t == "hist":
        spec = draw(S.hist_spec(costs=(cost,), densities=("normal", "expon"), n_sources=(0, 0) if cost in POIS else nsrc, fixed=True, bin_evaluations=("antider", "antider", "numerical")))
    else:
        spec = draw(S.unbinned_spec(fixed=True))
    ops = draw(st.lists(st.one_of(
        st.fixed_dictionaries({"op": st.sampled_from(["fix", "fix", "release"]), "par": st.integers(0, 5)}),
        st.fixed_dictionaries({"op": st.just("do_fit")}),
        st.fixed_dictionaries({"op": st.just("check"), "pt": st.lists(st.floats(-1, 1), min_size=4, max_size=4)}),
    ), min_size=1, max_size=8))
    return {"spec": spec, "ops": ops}


def check_single(fit, ref, p, fixed, tag, labels):
    spec = ref.spec
    _check_pd(ref, p)
    with np.errstate(all="ignore"):
        want_gof = ref_gof(ref, p)
    if want_gof is not None and not np.isfinite(want_gof):
        raise Discard("reference gof not finite")
    want_ndf = ref.ndf(fixed)
    with guard("ndf"):
        got_ndf = fit.ndf
    if int(got_ndf) != want_ndf:
        raise Violation(f"ndf[{spec['type']}]", f"{tag}: ndf={got_ndf}, documented N_data {ref.n} + constraint rows {ref.n_constraint_rows()} - parameters {len(ref.names)} + fixed {len(fixed)} = {want_ndf}")
    with guard("goodness_of_fit"):
        got_gof = fit.goodness_of_fit
    slope_tol = ref.slope_tolerance(p, lambda: ref_gof(ref, p)) if want_gof is not None else 0.0
    if not np.isfinite(slope_tol):
        raise Discard("slope bound too large")
    if want_gof is None:
        if got_gof is not None:
            raise Violation(f"gof[{spec['type']}]", f"{tag}: goodness_of_fit={got_gof!r}, documented None")
    else:
        if got_gof is None or not (_close(float(got_gof), want_gof, ref.n) or abs(float(got_gof) - want_gof) <= slope_tol + 1e-9 * ref.n):
            raise Violation(f"gof[{spec['type']}:{spec['cost']}]", f"{tag}: goodness_of_fit={got_gof!r}, documented cost - saturated cost = {want_gof!r} "
                            f"(constraints {[c['kind'] for c in spec['constraints']]}, p={p})")
    with guard("chi2_probability"):
        got_p = fit.chi2_probability
    if is_chi2(spec["cost"]):
        if want_ndf > 0:
            want_p = float(chi2_dist.sf(ref_chi2_for_probability(ref, p), want_ndf))
            c0 = ref_chi2_for_probability(ref, p)
            p_tol = abs(float(chi2_dist.sf(c0 + slope_tol, want_ndf)) - want_p) + abs(float(chi2_dist.sf(max(c0 - slope_tol, 0.0), want_ndf)) - want_p)
            if got_p is None or abs(float(got_p) - want_p) > 1e-8 * want_p + 1e-10 + p_tol:
                raise Violation(f"chi2_probability[{spec['type']}:{spec['cost']}]", f"{tag}: chi2_probability={got_p!r}, upper tail of chi2({want_ndf}) at {ref_chi2_for_probability(ref, p)!r} is {want_p!r}")
    elif got_p is not None:
        raise Violation("chi2_probability-non-chi2", f"{tag}: chi2_probability={got_p!r} for the non-chi2 cost {spec['cost']!r}")
    with guard("get_result_dict"):
        rd = fit.get_result_dict()
    if rd["ndf"] != got_ndf or (want_gof is not None and (rd["goodness_of_fit"] != got_gof or (want_ndf != 0 and not (_close(float(rd["gof/ndf"]), want_gof / want_ndf, ref.n) or abs(float(rd["gof/ndf"]) - want_gof / want_ndf) <= (slope_tol + 1e-9 * ref.n) / abs(want_ndf))))):
        raise Violation("result-dict", f"{tag}: result dict {dict((k_, rd[k_]) for k_ in ('ndf', 'goodness_of_fit', 'gof/ndf'))} vs ndf {got_ndf}, gof {got_gof}")


def run_single(case):
    spec = case["spec"]
    ref = fs.Ref(spec)
    names = ref.names
    with guard(f"build[{spec['type']}]"):
        fit = fs.build(spec)
    fixed = dict(spec.get("fixed", {}))
    tb = spec["truth"]
    labels = {spec["type"], spec["cost"]}
    did_hist = False
    cur = {nm: spec["start"].get(nm, tb[nm]) for nm in names}
    cur.update({nm: v for nm, v in fixed.items() if v is not None})
    n_checks = 0
    for i, op in enumerate(case["ops"] + [{"op": "check", "pt": [0.1, -0.2, 0.3, 0.05]}]):
        if op["op"] == "fix":
            nm = names[op["par"] % len(names)]
            if nm in fixed or len(fixed) >= len(names) - 1:
                continue
            with guard("fix_parameter"):
                fit.fix_parameter(nm)
            fixed[nm] = None
            did_hist = True
            labels.add("fix_after_construction")
        elif op["op"] == "release":
            if not fixed:
                continue
            nm = sorted(fixed)[op["par"] % len(fixed)]
            with guard("release_parameter"):
                fit.release_parameter(nm)
            del fixed[nm]
            did_hist = True
            labels.add("release")
        elif op["op"] == "do_fit":
            try:
                fit.do_fit()
                labels.add("after_do_fit")
            except Exception:
                labels.add("do_fit_raised")
        else:
            pt = op["pt"]
            p = {nm: tb[nm] * (1 + 0.2 * pt[j % 4]) + 0.03 * pt[(j + 1) % 4] for j, nm in enumerate(names)}
            for nm in ("sigma", "tau", "s", "g"):
                if nm in p:
                    p[nm] = abs(p[nm]) + 0.2
            with guard("set_parameter_values"):
                fit.set_all_parameter_values([p[nm] for nm in names])
            check_single(fit, ref, p, fixed, f"op {i}", labels)
            n_checks += 1
    nontrivial = bool(spec["constraints"]) or did_hist
    return {"nontrivial": nontrivial, "labels": sorted(labels)}


# ---------------------------------------------------------------------------------------------------

@st.composite
def strat_multi(draw, tier="quick"):
    k = draw(st.integers(1, 3))
    members = []
    for i in range(k):
        t = draw(st.sampled_from(["xy", "xy", "indexed", "hist"]))
        cost = draw(st.sampled_from(["chi2", "chi2", "chi2_covariance", "chi2_pointwise"])) if t != "hist" else draw(st.sampled_from(["nll", "chi2"]))
        if t == "xy":
            m = draw(S.xy_spec(families=["line", "quad", "cubic", "const", "sincos"], costs=(cost,), n_sources=(1, 2), x_errors=False, model_sources=False, fixed=False,
                               constraints=draw(st.booleans())))
        elif t == "indexed":
            m = draw(S.indexed_spec(costs=(cost,), n_sources=(1, 2), model_sources=False, fixed=False, constraints=draw(st.booleans())))
        else:
            m = draw(S.hist_spec(costs=(cost,), n_sources=(0, 0) if cost == "nll" else (1, 1), fixed=False, constraints=False, bin_evaluations=("antider",)))
        # give every source a name that is unique across members
        for s in m["sources"]:
            s["name"] = f"m{i}{s['name']}"
        members.append(m)
    allnames = []
    for m in members:
        for nm in fs.par_names(m):
            if nm not in allnames:
                allnames.append(nm)
    truth = {}
    for m in members:
        for nm, v in m["truth"].items():
            truth.setdefault(nm, v)
    cons = draw(S.constraints_for(allnames, truth, max_n=2))
    # xy members brought to one size (so that an uncertainty can be shared between them later in the history)
    xy = [m for m in members if m["type"] == "xy"]
    if len(xy) >= 2 and draw(st.booleans()):
        n_min = min(len(m["x"]) for m in xy)
        if n_min >= max(len(fs.par_names(m)) for m in xy) + 1:
            for m in xy:
                m["x"], m["y"] = m["x"][:n_min], m["y"][:n_min]
    ops = draw(st.lists(st.one_of(
        st.fixed_dictionaries({"op": st.sampled_from(["fix", "fix", "release"]), "par": st.integers(0, 8)}),
        st.fixed_dictionaries({"op": st.just("do_fit")}),
        st.fixed_dictionaries({"op": st.just("shared_error"), "rel": st.floats(0.2, 1.0)}),
        st.fixed_dictionaries({"op": st.just("check"), "pt": st.lists(st.floats(-1, 1), min_size=4, max_size=4)}),
    ), min_size=1, max_size=6))
    return {"members": members, "constraints": cons, "ops": ops, "truth": truth, "names": allnames}


def run_multi(case):
    kafe2 = fs.k("kafe2")
    members = case["members"]
    refs = [fs.Ref(m) for m in members]
    with guard("build-members"):
        fits = [fs.build(m, apply_params=False) for m in members]
    with guard("MultiFit"):
        multi = kafe2.MultiFit(fits)
    names = case["names"]
    with guard("parameter_names"):
        got_names = list(multi.parameter_names)
    if got_names != names:
        raise Violation("multi-parameter-names", f"{got_names} vs union in order of first appearance {names}")
    for con in case["constraints"]:
        with guard("add_parameter_constraint"):
            fs.add_constraint(multi, con)
    multi_ref_cons = fs.Ref({"type": "indexed", "n": 2, "n_par": 1, "data": [0, 0], "cost": "chi2", "sources": [], "constraints": case["constraints"]})
    multi_ref_cons.names = names
    truth = case["truth"]
    fixed = {}
    labels = {f"members={len(members)}"} | {m["type"] for m in members}
    shared = len(names) < sum(len(r.names) for r in refs)
    if shared:
        labels.add("shared_parameter")
    did_hist = False
    shared_on = False
    for i, op in enumerate(case["ops"] + [{"op": "check", "pt": [0.1, -0.2, 0.3, 0.05]}]):
        if op["op"] == "fix":
            nm = names[op["par"] % len(names)]
            if nm in fixed or len(fixed) >= len(names) - 1:
                continue
            with guard("multi.fix_parameter"):
                multi.fix_parameter(nm)
            fixed[nm] = None
            did_hist = True
        elif op["op"] == "release":
            if not fixed:
                continue
            nm = sorted(fixed)[op["par"] % len(fixed)]
            with guard("multi.release_parameter"):
                multi.release_parameter(nm)
            del fixed[nm]
            did_hist = True
        elif op["op"] == "shared_error":
            # an uncertainty shared between all xy members of equal size, declared in the middle of the history (after parameters may have been fixed)
            idx = [j for j, m in enumerate(members) if m["type"] == "xy"]
            if shared_on or len(idx) < 2 or len({len(members[j]["x"]) for j in idx}) != 1:
                continue
            with guard("multi.add_error(shared)"):
                multi.add_error(float(op["rel"]) * min(members[j]["sigma"] for j in idx), fits=idx, axis="y", name="shared_y")
            shared_on = True
            labels.add("shared_error_added_mid_history")
        elif op["op"] == "do_fit":
            try:
                multi.do_fit()
                labels.add("after_do_fit")
            except Exception:
                labels.add("do_fit_raised")
        else:
            pt = op["pt"]
            p = {nm: truth[nm] * (1 + 0.2 * pt[j % 4]) + 0.03 * pt[(j + 1) % 4] for j, nm in enumerate(names)}
            if "sigma" in p:
                p["sigma"] = abs(p["sigma"]) + 0.2
            with guard("multi.set_all_parameter_values"):
                multi.set_all_parameter_values([p[nm] for nm in names])
            for r in refs:
                _check_pd(r, p)
            n_data = sum(r.n for r in refs)
            n_con = sum(r.n_constraint_rows() for r in refs) + multi_ref_cons.n_constraint_rows()
            want_ndf = n_data + n_con - len(names) + len(fixed)
            with guard("multi.ndf"):
                got_ndf = multi.ndf
            if int(got_ndf) != want_ndf:
                raise Violation("ndf[multi]", f"op {i}: multi.ndf={got_ndf}; data points {n_data} + constraint rows {n_con} (members {n_con - multi_ref_cons.n_constraint_rows()}, multi-fit "
                                f"{multi_ref_cons.n_constraint_rows()}) - parameters {len(names)} + fixed {len(fixed)} = {want_ndf}")
            if shared_on:
                continue  # with a shared source the goodness of fit is that of the joint fit (C11's subject); here only the number of degrees of freedom is judged
            with np.errstate(all="ignore"):
                gofs = [ref_gof(r, {nm: p[nm] for nm in r.names}) for r in refs]
            want_gof = float(sum(gofs) + multi_ref_cons.constraint_cost(p))
            if not np.isfinite(want_gof):
                raise Discard("reference gof not finite")
            with guard("multi.goodness_of_fit"):
                got_gof = multi.goodness_of_fit
            if got_gof is None or not _close(float(got_gof), want_gof, n_data):
                raise Violation("gof[multi]", f"op {i}: multi.goodness_of_fit={got_gof!r}, sum of member gofs {gofs} + multi-fit constraint cost = {want_gof!r}")
            with guard("multi.chi2_probability"):
                got_p = multi.chi2_probability
            if all(is_chi2(m["cost"]) for m in members):
                if want_ndf > 0:
                    want_p = float(chi2_dist.sf(want_gof, want_ndf))
                    if got_p is None or abs(float(got_p) - want_p) > 1e-8 * want_p + 1e-10:
                        raise Violation("chi2_probability[multi]", f"op {i}: {got_p!r} vs chi2({want_ndf}).sf({want_gof!r}) = {want_p!r}")
    nontrivial = bool(case["constraints"]) or any(m["constraints"] for m in members) or did_hist or shared
    return {"nontrivial": nontrivial, "labels": sorted(labels)}


SUBS = [
    Sub("single", lambda tier: strat_single(tier), run_single, quick=3200, thorough=60000, about="ndf / gof / chi2 probability of single fits with fix/release histories"),
    Sub("multi", lambda tier: strat_multi(tier), run_multi, quick=1200, thorough=20000, about="the same for MultiFits with shared parameters and constraints on both levels"),
]
