"""C03 - fit observables depend only on the current configuration, not on its history.

A case = a problem spec + an op-list over the public mutators (add_error, add_matrix_error, disable_error, enable_error,
add_parameter_constraint, add_matrix_parameter_constraint, set_parameter_values, set_all_parameter_values, fix_parameter, release_parameter,
limit_parameter, unlimit_parameter, data = <container | array>, do_fit) and reads of any public read-only property (reads are ops, placed
anywhere, any number of times).  The harness folds the ops into a *configuration* (again a spec).  Oracle: for every read, a *fresh* fit is
built from the configuration through the public API with no intermediate reads and asked for that observable first.
"""
import copy
import inspect
import os

import numpy as np
from hypothesis import strategies as st

from .. import fitspec as fs
from .. import strategies as S
from ..core import Discard, Violation, guard
from ..runner import Sub

PROPERTY = "C03"
RULE = ("specs (xy / indexed / hist) x op-lists (<= 14 quick / <= 40 thorough) over all public mutators and reads of all public read-only "
        "properties; non-trivial = a mutator is applied after an observable that depends on it had been read, and that observable is read "
        "again later; distinct by case hash")
ASSUMPTIONS = [
    "reference = fresh fit built from the folded configuration through the public API (differential against a fresh object, as the "
    "property's quantifier states); comparison at rounding precision (1e-9 relative, scaled by cond/1e4 for inverses)",
    "configuration semantics: 'data = container' brings that container's sources; 'data = array' leaves the fit without data sources; data "
    "replacement is only generated while no model-referenced source is declared (what should happen to those is not documented)",
    "minimisation results (parameter errors / covariance / correlation, did_fit, errors_valid) are compared only when no mutator followed the "
    "last do_fit, against 'fresh fit, same start values, do_fit' at MINIMIZER tolerance (0.03 sigma, 2 % of sqrt(C_ii C_jj)); after do_fit "
    "the configuration's parameter values are the ones the fit reports",
    "checkpoints whose total covariance is not positive definite while a source is declared (all disabled / rank deficient / cond > 1e6) "
    "are excluded by the property and skipped (counted)",
    "limits are generated so that they contain the current value (what happens to a value outside new limits is backend specific)",
    "minimisation results are not compared when the fresh reference fit itself ran away (a parameter > 1000 x (|truth| + 1) from the value the data were generated with): no minimum, not a well-posed problem",
    "error_band() (XYFit, fixed grid of 5 points) is an observable too: against the fresh fit at MINIMIZER tolerance, and against sqrt(diag(J C J^T)) with the covariance matrix the fit reports at that moment (2 %)",
]

MINIMISATION_OBS = {"parameter_errors", "parameter_cov_mat", "parameter_cor_mat", "did_fit", "errors_valid", "error_band()"}
SKIP_OBS = {"asymmetric_parameter_errors", "parameter_constraints", "model_count"}
_OBS_CACHE = {}


def observables(fit):
    key = type(fit).__name__
    if key not in _OBS_CACHE:
        props = [n for n, v in inspect.getmembers(type(fit), lambda o: isinstance(o, property)) if not n.startswith("_")]
        drop = {"data_container", "dynamic_error_algorithm", "model_function", "model_label", "parameter_name_value_dict"} | SKIP_OBS
        _OBS_CACHE[key] = sorted(n for n in props if n not in drop) + (["error_band()"] if hasattr(fit, "error_band") and key == "XYFit" else [])
    return _OBS_CACHE[key]


def _read(fit, obs):
    """an observable is a public read-only property, or (with a trailing '()') a public query method called on a fixed grid"""
    if obs == "error_band()":
        x = np.asarray(fit.x_data, float)
        return np.asarray(fit.error_band(np.linspace(x.min() - 0.1, x.max() + 0.1, 5)), float)
    return getattr(fit, obs)


# dependencies of observables on mutator classes (for the non-triviality rule only)
def _depends(obs, mut):
    if mut in ("source", "toggle"):
        return any(t in obs for t in ("error", "cov_mat", "cor_mat", "cost", "goodness", "chi2", "has_"))
    if mut == "constraint":
        return obs in ("cost_function_value", "goodness_of_fit", "chi2_probability", "ndf")
    if mut in ("values", "do_fit"):
        return "model" in obs or "total" in obs or obs in ("cost_function_value", "goodness_of_fit", "chi2_probability", "parameter_values", "data_error", "data_cov_mat", "data_cor_mat", "data_cov_mat_inverse")
    if mut == "fix":
        return obs in ("ndf", "chi2_probability")
    if mut == "data":
        return True
    return False


@st.composite
def strat(draw, tier="quick"):
    t = draw(st.sampled_from(["xy", "xy", "xy", "indexed", "hist"]))
    mini = draw(st.sampled_from(["iminuit", "iminuit", "scipy"]))
    if t == "xy":
        spec = draw(S.xy_spec(families=["line", "quad", "expo", "sincos", "gauss"], costs=("chi2", "chi2", "chi2_covariance", "chi2_pointwise", "nll_gaussian"), n_sources=(0, 2),
                              constraints=False, fixed=False, minimizers=(mini,), deas=("nonlinear", "nonlinear", "iterative"), model_only_first=0.0, min_points=5))
        n = len(spec["x"])
    elif t == "indexed":
        spec = draw(S.indexed_spec(costs=("chi2", "chi2_covariance"), n_sources=(0, 2), constraints=False, fixed=False, minimizers=(mini,)))
        n = spec["n"]
    else:
        spec = draw(S.hist_spec(costs=("nll", "chi2", "gauss_approximation"), n_sources=(0, 1), constraints=False, fixed=False, minimizers=(mini,), bin_evaluations=("antider",)))
        n = len(spec["edges"]) - 1
        if spec["cost"] == "nll":
            spec["sources"] = []
    names = fs.par_names(spec)
    tb = spec["truth"]
    sc = spec.get("sigma", 1.0)
    src = st.one_of(
        S.source(n, "x", "data", "y" if t == "xy" else None, sc),
        S.source(n, "x", "model", "y" if t == "xy" else None, sc, allow_relative=(t != "hist")),  # histogram fits: absolute model-referenced sources only
        S.source(n, "x", "data", "x", 0.05) if t == "xy" else S.source(n, "x", "data", None, sc),
    )
    ref = st.integers(0, 6)
    key_obs = ["cost_function_value", "total_cov_mat", "total_error", "goodness_of_fit", "ndf", "chi2_probability", "model_error", "model_cov_mat", "data_error", "parameter_values"]
    min_obs = sorted(MINIMISATION_OBS)
    m_source = st.fixed_dictionaries({"op": st.just("add_source"), "src": src})
    m_toggle = st.fixed_dictionaries({"op": st.sampled_from(["disable", "enable"]), "i": ref})
    m_con = st.fixed_dictionaries({"op": st.just("constraint"), "con": S.constraints_for(names, tb, max_n=1).filter(lambda c: len(c) == 1).map(lambda c: c[0])})
    m_set = st.fixed_dictionaries({"op": st.just("set_values"), "which": st.lists(ref, min_size=1, max_size=2), "d": st.lists(st.floats(-0.3, 0.3), min_size=2, max_size=2)})
    m_setall = st.fixed_dictionaries({"op": st.just("set_all"), "d": st.lists(st.floats(-0.3, 0.3), min_size=4, max_size=4)})
    m_par = st.fixed_dictionaries({"op": st.sampled_from(["fix", "fix_value", "release", "limit", "unlimit"]), "i": ref, "d": st.floats(-0.2, 0.2)})
    m_data = st.fixed_dictionaries({"op": st.just("data"), "as": st.sampled_from(["array", "container", "container_with_sources"]), "noise": st.lists(st.floats(-1, 1), min_size=8, max_size=8),
                                    "src": S.source(n, "dsrc", "data", "y" if t == "xy" else None, sc, allow_relative=True)})
    do_fit = st.fixed_dictionaries({"op": st.just("do_fit")})
    # a fit that cannot run: every parameter fixed -> do_fit raises; the parameters are released again, so the configuration is what it was
    failed_fit = st.just({"op": "do_fit_all_fixed"})
    read = st.fixed_dictionaries({"op": st.just("read"), "obs": st.integers(0, 80)})
    read_key = st.fixed_dictionaries({"op": st.just("read_key"), "obs": st.sampled_from(key_obs)})
    read_min = st.fixed_dictionaries({"op": st.just("read_key"), "obs": st.sampled_from(min_obs)})
    mutator = st.one_of(m_source, m_toggle, m_con, m_set, m_setall, m_par, m_data, m_data)
    op = st.one_of(m_source, m_toggle, m_con, m_set, m_setall, m_par, m_data, do_fit, read, read, read, read_key, do_fit, read, read_key, failed_fit).map(lambda o: [o])
    # macros (expanded into plain ops; cases, replays and shrinking are unchanged).  As single ops the patterns "read X, change something X depends on" and
    # "fit, read a result, change something, fit again" are rare in lists of <= 14 ops; the final sweep re-reads every observable, so a macro placed anywhere
    # gives "X read - mutation - X read again" (seeded changes C01-b, C07-c: caches keyed on too little)
    macro_read_mutate = st.tuples(st.one_of(read_key, st.just({"op": "read_key", "obs": "cost_function_value"}), st.just({"op": "read_key", "obs": "total_error"})),
                                  mutator).map(lambda t: [t[0], t[1], t[0]])
    fix_here = st.fixed_dictionaries({"op": st.just("fix"), "i": ref, "d": st.just(0.0)})  # fixed at the value it has: the optimum of the refit does not move
    macro_refit = st.tuples(do_fit, st.one_of(read_min, st.just({"op": "read_key", "obs": "error_band()"})), st.one_of(fix_here, fix_here, m_source, m_toggle, m_con, m_par),
                            do_fit).map(lambda t: [t[0], t[1], t[2], t[3], t[1]])
    ops = st.lists(st.one_of(op, op, op, op, op, op, macro_read_mutate, macro_refit), min_size=2, max_size=14 if tier == "quick" else 40).map(lambda ll: [o for l in ll for o in l])
    return {"spec": spec, "ops": draw(ops), "reuse_buffers": draw(st.booleans())}


def _values_equal(tag, a, b, factor=1.0):
    """None-ness, shapes and numbers at rounding precision"""
    if a is None or b is None:
        return a is None and b is None
    if isinstance(a, (bool, np.bool_)) or isinstance(b, (bool, np.bool_)):
        return bool(a) == bool(b)
    if isinstance(a, (tuple, list)) and a and isinstance(a[0], str):
        return list(a) == list(b)
    try:
        x = np.asarray(a, float)
        y = np.asarray(b, float)
    except (TypeError, ValueError):
        return a == b
    if x.shape != y.shape:
        return False
    fin = np.concatenate([np.abs(x[np.isfinite(x)]).ravel(), np.abs(y[np.isfinite(y)]).ravel()])
    scale = float(fin.max()) if fin.size else 0.0
    tol = factor * (1e-9 * (np.abs(x) + np.abs(y)) + 1e-11 * scale)
    with np.errstate(invalid="ignore"):
        ok = (np.abs(x - y) <= tol) | (np.isnan(x) & np.isnan(y)) | (np.isinf(x) & np.isinf(y) & (np.sign(x) == np.sign(y)))
    return bool(np.all(ok))


class Config:
    """the folded configuration (a spec) + what the harness knows about the history"""

    def __init__(self, spec):
        self.spec = copy.deepcopy(spec)
        self.spec["constraints"] = list(self.spec.get("constraints", []))
        self.spec["fixed"] = dict(self.spec.get("fixed", {}))
        self.spec["limits"] = dict(self.spec.get("limits", {}))
        names = fs.par_names(spec)
        self.values = {nm: 1.0 for nm in names}
        self.values.update(self.spec.get("start", {}))
        self.fitted = False  # True while no mutator followed the last do_fit
        self.start_before_fit = None
        self.n_src = len(self.spec["sources"])

    def as_spec(self):
        sp = copy.deepcopy(self.spec)
        sp["start"] = dict(self.values)
        sp["fixed"] = {nm: self.values[nm] for nm in self.spec["fixed"]}
        return sp


def _pd_ok(cfg, values):
    """is the configuration inside the property's quantifier (PD total covariance whenever a source is declared)?"""
    sp = cfg.as_spec()
    cid = sp["cost"]
    if not sp["sources"]:
        # no source declared: fine for the implicit no-errors chi2, the explicit no-errors cost and the Poisson likelihoods; every other
        # built-in cost needs uncertainties (documented) and is degenerate without them
        return cid in ("chi2",) or cid in fs.CHI2_NOERR or cid in fs.NLL_POISSON or cid in fs.NLLR_POISSON or cid in (fs.GA_COV | fs.GA_POINT)
    ref = fs.Ref(sp)
    if sp["type"] == "hist" and cid in fs.NLL_POISSON:
        return True
    try:
        V = ref.total_cov(values)
        if cid in (fs.GA_COV | fs.GA_POINT):
            V = V + np.diag(ref.model(values))
        ev = np.linalg.eigvalsh(V)
    except Exception:
        return False
    return bool(np.all(np.isfinite(ev)) and ev.min() > 0 and ev.max() / ev.min() <= 1e6)


def run(case):
    spec = case["spec"]
    cfg = Config(spec)
    names = fs.par_names(spec)
    tb = spec["truth"]
    with guard(f"build[{spec['type']}]"):
        H = fs.build(cfg.as_spec())
    obs_all = observables(H)
    labels = {spec["type"], spec["minimizer"], spec.get("dea", "nonlinear")}
    pbuf = [0.0] * len(names)
    read_then = {}  # observable -> set of mutator classes applied after it was read
    nontrivial = False
    skipped_pd = 0

    def mutated(kind):
        for o in read_then:
            if _depends(o, kind):
                read_then[o].add(kind)

    def fresh(do_fit_from=None):
        sp = cfg.as_spec()
        if do_fit_from is not None:
            sp["start"] = dict(do_fit_from)
            sp["fixed"] = {nm: do_fit_from[nm] for nm in cfg.spec["fixed"]}
        F = fs.build(sp)
        if do_fit_from is not None:
            F.do_fit()
        return F

    def compare(obs, where):
        nonlocal nontrivial, skipped_pd
        if obs in MINIMISATION_OBS and not cfg.fitted:
            return
        if obs in MINIMISATION_OBS and cfg.spec["type"] == "xy" and not any(s_.get("enabled", True) and (s_.get("axis") or "y") == "y" for s_ in cfg.spec["sources"]) \
                and any(s_.get("enabled", True) for s_ in cfg.spec["sources"]):
            # only x uncertainties: the covariance is slope^2 * V_x, which vanishes wherever the model is flat - the cost surface has several minima and which one
            # a minimiser reaches depends on where it starts (observed: 455.5 vs 842.0).  Not a well-posed problem; minimisation results are not compared
            labels.add("minimisation_results_not_compared_x_errors_only")
            return
        if obs == "error_band()":
            with guard("read:parameter_errors"):
                pe = np.asarray(H.parameter_errors, float)
            if not np.all(np.isfinite(pe)):
                labels.add("error_band_skipped_nonfinite_parameter_errors")  # the minimiser did not produce uncertainties (C05-C07's subject): nothing to propagate
                return
        with guard(f"read:{obs}"):
            h = _read(H, obs)
        if isinstance(h, np.ndarray):
            h = h.copy()
        # after a fit the configuration's parameter values are the ones the fit holds
        if cfg.fitted:
            cur = dict(zip(names, np.asarray(H.parameter_values, float)))
            cfg.values.update(cur)
        if not _pd_ok(cfg, cfg.values):
            skipped_pd += 1
            return
        if any(abs(cfg.values[nm] - tb[nm]) > 1e3 * (abs(tb[nm]) + 1.0) for nm in names if nm in tb):
            # the parameter values of the configuration come from a fit that ran away (no minimum: e.g. a peak model with x uncertainties only); costs there are
            # -inf / nan / 1e300 on both sides and compare as noise
            labels.add("checkpoint_skipped_parameters_ran_away")
            return
        if obs == "error_band()" and H.errors_valid and H.parameter_cov_mat is not None:
            # history-free part: the band is the linear propagation of the covariance matrix the fit reports *now* (2 % as in C07: numerical derivatives)
            rf = fs.Ref(cfg.as_spec())
            xg = np.asarray(H.x_data, float)
            xg = np.linspace(xg.min() - 0.1, xg.max() + 0.1, 5)
            free = [nm for nm in names if nm not in cfg.spec["fixed"]]
            J = rf.fam.jac(xg, rf.pvec(dict(zip(names, np.asarray(H.parameter_values, float)))))
            J = np.array([J[rf.canon.index(nm)] for nm in free]) * (rf.y_scale or 1.0)
            fi = [names.index(nm) for nm in free]
            Cn = np.asarray(H.parameter_cov_mat, float)[np.ix_(fi, fi)]
            want = np.sqrt(np.clip(np.einsum("ik,ij,jk->k", J, Cn, J), 0, None))
            # J C J^T cancels between large correlated terms: the 1e-4-level error of kafe2's numerical parameter derivatives is amplified by the condition number of
            # the parameter correlation matrix; beyond 1e3 (undetermined parameters, e.g. a peak between two points) the band is not compared
            dn = np.sqrt(np.clip(np.diag(Cn), 1e-300, None))
            cc = np.linalg.cond(Cn / np.outer(dn, dn)) if len(fi) > 1 and np.all(np.isfinite(Cn)) else 1.0
            btol = 2e-2 * max(1.0, cc / 50.0)
            if np.isfinite(cc) and cc <= 1e3 and np.all(np.isfinite(want)) and np.any(np.abs(np.asarray(h, float) - want) > btol * want + 1e-3 * np.max(want) + 1e-9 * float(np.max(np.abs(rf.d)))):  # floor: the tails of a peak carry no information
                raise Violation("error-band-vs-reported-covariance", f"{where}: error_band = {_s(h)}, sqrt(diag(J C J^T)) with the covariance matrix the fit reports now = {_s(want)}; "
                                f"fixed {sorted(cfg.spec['fixed'])}")
        try:
            if obs in MINIMISATION_OBS:
                F = fresh(do_fit_from=cfg.start_before_fit)
            else:
                F = fresh()
            f = _read(F, obs)
        except Exception as e:
            raise Violation(f"fresh-fit-raises:{obs}", f"{where}: a fresh fit in the same configuration raises {type(e).__name__}: {e}")
        if obs in MINIMISATION_OBS:
            ok = _min_equal(obs, h, f, H, F, tb)
        else:
            factor = 1e4 if "inverse" in obs else (10.0 if "cor_mat" in obs else 1.0)
            ok = _values_equal(obs, h, f, factor)
            if not ok and obs in ("cost_function_value", "goodness_of_fit") and h is not None and f is not None and abs(float(h) - float(f)) < 1e-10:
                ok = True  # residuals at rounding level (perfect fit): absolute floor
        facet_obs = obs
        if not ok and obs == "parameter_errors" and F._minimizer in (None, "iminuit"):
            # bug model of KF-C03-1 (same root cause as KF-C15-3): with iminuit parameter_errors are MIGRAD's running estimates, which depend on the path of
            # the minimisation, while the HESSE covariance matrices of the two fits agree
            try:
                if _min_equal("parameter_cov_mat", H.parameter_cov_mat, F.parameter_cov_mat, H, F, tb) and np.all(np.abs(np.asarray(h, float)) < 10 * np.abs(np.asarray(f, float)) + 1e-300):
                    facet_obs = "parameter_errors-migrad-estimate"
            except Exception:  # noqa
                pass
        if not ok:
            hist = sorted(read_then.get(obs, ()))
            raise Violation(f"history-dependent:{facet_obs}", f"{where}: {obs} = {_s(h)} after the history, a fresh fit in the same configuration gives {_s(f)}; "
                            f"mutators since it was last read: {hist}; configuration: sources {[(s['name'], s['ref'], s.get('axis'), s['kind'], 'rel' if s['relative'] else 'abs', s.get('enabled', True)) for s in cfg.spec['sources']]}, "
                            f"constraints {len(cfg.spec['constraints'])}, fixed {sorted(cfg.spec['fixed'])}, limits {cfg.spec['limits']}, values {cfg.values}, fitted={cfg.fitted}")
        if read_then.get(obs):
            nontrivial = True
            labels.add("reread_after_mutation")
        read_then[obs] = set()

    for i, op in enumerate(case["ops"]):
        k = op["op"]
        where = f"op {i} {k}"
        if k == "add_source":
            s = dict(op["src"])
            s["name"] = f"h{cfg.n_src}"
            cfg.n_src += 1
            if spec["type"] == "hist" and (cfg.spec["cost"] in fs.NLL_POISSON):
                continue
            with guard("add_error"):
                fs.add_source(H, cfg.spec, s)
            cfg.spec["sources"].append(s)
            cfg.fitted = False
            mutated("source")
            labels.add(f"add_{s['ref']}_source")
        elif k in ("disable", "enable"):
            if not cfg.spec["sources"]:
                continue
            s = cfg.spec["sources"][op["i"] % len(cfg.spec["sources"])]
            with guard(f"{k}_error"):
                (H.disable_error if k == "disable" else H.enable_error)(s["name"])
            s["enabled"] = k == "enable"
            cfg.fitted = False
            mutated("toggle")
        elif k == "constraint":
            con = op["con"]
            with guard("add_constraint"):
                fs.add_constraint(H, con)
            cfg.spec["constraints"].append(con)
            cfg.fitted = False
            mutated("constraint")
            labels.add("constraint_added")
        elif k == "set_values":
            new = {}
            for j, w in enumerate(op["which"]):
                nm = names[w % len(names)]
                if nm in cfg.spec["fixed"]:
                    continue
                new[nm] = cfg.values[nm] * (1 + op["d"][j % 2]) + 0.01 * op["d"][j % 2]
            if not new:
                continue
            new = _inside_limits(new, cfg)
            with guard("set_parameter_values"):
                H.set_parameter_values(**new)
            cfg.values.update(new)
            cfg.fitted = False
            mutated("values")
        elif k == "set_all":
            new = {nm: (cfg.values[nm] if nm in cfg.spec["fixed"] else cfg.values[nm] * (1 + op["d"][j % 4]) + 0.01 * op["d"][j % 4]) for j, nm in enumerate(names)}
            new = _inside_limits(new, cfg)
            with guard("set_all_parameter_values"):
                if case.get("reuse_buffers"):
                    pbuf[:] = [new[nm] for nm in names]  # one list object, updated in place and passed again (a scan loop)
                    H.set_all_parameter_values(pbuf)
                    labels.add("parameter_buffer_reused_in_place")
                else:
                    H.set_all_parameter_values([new[nm] for nm in names])
            cfg.values.update(new)
            cfg.fitted = False
            mutated("values")
        elif k in ("fix", "fix_value"):
            nm = names[op["i"] % len(names)]
            if nm in cfg.spec["fixed"] or len(cfg.spec["fixed"]) >= len(names) - 1:
                continue
            if k == "fix_value":
                v = cfg.values[nm] * (1 + op["d"]) + 0.01
                v = _inside_limits({nm: v}, cfg)[nm]
                if cfg.fitted:
                    cfg.values.update(dict(zip(names, np.asarray(H.parameter_values, float))))
                with guard("fix_parameter"):
                    H.fix_parameter(nm, v)
                cfg.values[nm] = v
            else:
                if cfg.fitted:
                    cfg.values.update(dict(zip(names, np.asarray(H.parameter_values, float))))
                with guard("fix_parameter"):
                    H.fix_parameter(nm)
            cfg.spec["fixed"][nm] = None
            cfg.fitted = False
            mutated("fix")
            if k == "fix_value":
                mutated("values")
        elif k == "release":
            if not cfg.spec["fixed"]:
                continue
            nm = sorted(cfg.spec["fixed"])[op["i"] % len(cfg.spec["fixed"])]
            with guard("release_parameter"):
                H.release_parameter(nm)
            del cfg.spec["fixed"][nm]
            cfg.fitted = False
            mutated("fix")
        elif k == "limit":
            nm = names[op["i"] % len(names)]
            if cfg.fitted:
                cfg.values.update(dict(zip(names, np.asarray(H.parameter_values, float))))
            w = 5.0 * (1.0 + abs(tb[nm])) * (1 + abs(op["d"]))
            lo, hi = min(tb[nm], cfg.values[nm]) - w, max(tb[nm], cfg.values[nm]) + w
            with guard("limit_parameter"):
                H.limit_parameter(nm, lo, hi)
            cfg.spec["limits"][nm] = [lo, hi]
            cfg.fitted = False
            labels.add("limit")
        elif k == "unlimit":
            if not cfg.spec["limits"]:
                continue
            nm = sorted(cfg.spec["limits"])[op["i"] % len(cfg.spec["limits"])]
            with guard("unlimit_parameter"):
                H.unlimit_parameter(nm)
            del cfg.spec["limits"][nm]
            cfg.fitted = False
        elif k == "data":
            if any(s["ref"] == "model" for s in cfg.spec["sources"]):
                continue
            if cfg.fitted:
                cfg.values.update(dict(zip(names, np.asarray(H.parameter_values, float))))
            _replace_data(H, cfg, op, spec)
            cfg.fitted = False
            mutated("data")
            labels.add(f"data_replaced_by_{op['as']}")
        elif k == "do_fit_all_fixed":
            free_now = [nm for nm in names if nm not in cfg.spec["fixed"]]
            if cfg.fitted:
                cfg.values.update(dict(zip(names, np.asarray(H.parameter_values, float))))
            with guard("fix_parameter"):
                for nm in free_now:
                    H.fix_parameter(nm)
            try:
                H.do_fit()
                raised = False
            except Exception:  # noqa
                raised = True
            with guard("release_parameter"):
                for nm in free_now:
                    H.release_parameter(nm)
            if not raised:
                raise Discard("do_fit with every parameter fixed did not raise (nothing to test)")
            cfg.fitted = False
            mutated("fix")
            labels.add("failed_do_fit_all_parameters_fixed")
        elif k == "do_fit":
            if not _pd_ok(cfg, cfg.values):
                continue
            if cfg.fitted:
                cfg.values.update(dict(zip(names, np.asarray(H.parameter_values, float))))
            start = dict(cfg.values)
            try:
                H.do_fit()
            except Exception:
                raise Discard("do_fit failed (convergence is the subject of C05/C06)")
            cfg.start_before_fit = start
            cfg.fitted = True
            cfg.values.update(dict(zip(names, np.asarray(H.parameter_values, float))))
            mutated("do_fit")
            labels.add("do_fit")
        elif k in ("read", "read_key"):
            obs = obs_all[op["obs"] % len(obs_all)] if k == "read" else op["obs"]
            if obs not in obs_all:
                continue
            compare(obs, where)
    # final sweep: every observable
    for obs in obs_all:
        compare(obs, f"final read of {obs}")
    if skipped_pd:
        labels.add("checkpoint_skipped_not_pd")
    return {"nontrivial": nontrivial, "labels": sorted(labels)}


def _inside_limits(new, cfg):
    out = dict(new)
    for nm, v in new.items():
        if nm in cfg.spec["limits"]:
            lo, hi = cfg.spec["limits"][nm]
            out[nm] = min(max(v, lo), hi)
    return out


def _s(v):
    try:
        return np.array2string(np.asarray(v, float), precision=8, threshold=12, max_line_width=10 ** 6).replace("\n", " ")
    except Exception:
        return repr(v)


def _min_equal(obs, h, f, H, F, truth=None):
    if obs in ("did_fit", "errors_valid"):
        return bool(h) == bool(f)
    if not F.errors_valid:
        return True  # without uncertainties the parameter errors are documented to be meaningless
    rel = 0.1 if F._minimizer in (None, "iminuit") else 0.03  # MIGRAD's running error estimate depends on the path taken (C07: <= 8 %)
    rel *= float(os.environ.get("KVERIF_C03_REL_FACTOR", "1"))  # calibration aid only (never set by the registered commands)
    if h is None or f is None:
        return h is None and f is None
    h = np.asarray(h, float)
    f = np.asarray(f, float)
    if h.shape != f.shape:
        return False
    e = np.asarray(F.parameter_errors, float)
    try:
        # the scale of a covariance entry is the covariance matrix itself (with iminuit, parameter_errors are MIGRAD's running estimates and can be far from
        # sqrt(diag) of the HESSE matrix - KF-C03-1 / KF-C15-3 - which made a 2e-5 relative difference look like a violation)
        dC = np.sqrt(np.clip(np.diag(np.asarray(F.parameter_cov_mat, float)), 0, None))
        if obs != "parameter_errors" and dC.shape == e.shape:
            e = np.where(np.isfinite(dC) & (dC > 0), dC, e)
    except Exception:  # noqa
        pass
    e = np.where(np.isfinite(e) & (e > 0), e, 1.0)
    # width parameters of the peak families / the normal density enter only through their square: fits may end at +s or -s, which mirrors the
    # corresponding rows and columns of the covariance / correlation matrix
    if h.ndim == 2:
        try:
            sg = np.array([-1.0 if (nm in ("s", "g", "sigma") and np.sign(hv) * np.sign(fv) < 0) else 1.0
                           for nm, hv, fv in zip(F.parameter_names, np.asarray(H.parameter_values, float), np.asarray(F.parameter_values, float))])
            h = h * np.outer(sg, sg)
        except Exception:  # noqa
            pass
    both_nan = np.isnan(h) & np.isnan(f)
    # numerical second derivatives lose accuracy with the correlation of the parameters (C05: 3-8 % at a condition number of 3e4 of the parameter
    # correlation matrix): x3 beyond 1e3, not compared beyond 1e4
    cond_cor = 1.0
    for X in (F, H):
        try:
            C = np.asarray(X.parameter_cov_mat, float)
            free = np.diag(C) > 0
            d = np.sqrt(np.diag(C)[free])
            cond_cor = max(cond_cor, np.linalg.cond(C[np.ix_(free, free)] / np.outer(d, d)) if free.sum() > 1 else 1.0)
        except Exception:  # noqa
            pass
    if not np.isfinite(cond_cor) or cond_cor > 1e4:
        return True
    # a parameter that the data do not determine (HESSE uncertainty of the fresh fit > 3 x its size, e.g. the width of a peak that falls between two points):
    # the curvature along it is noise and differs from one minimisation to the next
    try:
        dF = np.sqrt(np.clip(np.diag(np.asarray(F.parameter_cov_mat, float)), 0, None))
        pF = np.abs(np.asarray(F.parameter_values, float))
        if np.any((dF > 3.0 * pF) & (pF > 0) & np.isfinite(dF)):
            return True
    except Exception:  # noqa
        pass
    # the *fresh* fit ran away from the region where the data were generated (a parameter more than 1000 x (|truth| + 1) from the truth: the cost has no
    # minimum there, e.g. a peak model on data that lost the peak): the configuration is not a well-posed problem, curvatures at "infinity" are noise
    if truth is not None:
        try:
            pf = dict(zip(F.parameter_names, np.asarray(F.parameter_values, float)))
            if any(abs(pf[nm] - truth[nm]) > 1e3 * (abs(truth[nm]) + 1.0) for nm in pf if nm in truth):
                return True
        except Exception:  # noqa
            pass
    if cond_cor > 1e3:
        rel *= 3
    if obs == "error_band()":
        # half-widths: relative, with a floor on the scale of the widest part of the band (far from a peak the band is 1e-20 of its maximum: no information there);
        # the precise (history-free) check is in compare()
        floor = 1e-3 * float(np.nanmax(np.abs(f))) if np.any(np.isfinite(f)) else 0.0
        return bool(np.all((np.abs(h - f) <= 2 * rel * np.maximum(np.abs(h), np.abs(f)) + floor + 1e-300) | both_nan))
    if obs == "parameter_errors":
        return bool(np.all((np.abs(h - f) <= rel * e + 1e-300) | both_nan))
    if obs == "parameter_cov_mat":
        return bool(np.all((np.abs(h - f) <= rel * np.outer(e, e) + 1e-300) | both_nan))
    return bool(np.all((np.abs(h - f) <= (0.03 if cond_cor <= 1e3 else 0.1)) | (np.isnan(h) & np.isnan(f))))


KNOWN = {
    # same root cause as KF-C15-3 (parameter_errors are MIGRAD's running estimates): they depend on the state carried over from earlier fits
    "KF-C03-1": lambda sub, case, v: v.facet == "history-dependent:parameter_errors-migrad-estimate",
}


def _replace_data(H, cfg, op, spec0):
    kafe2 = fs.k("kafe2")
    sp = cfg.spec
    t = sp["type"]
    nz = np.array(op["noise"])
    sc = spec0.get("sigma", 1.0)
    if t == "xy":
        x = np.asarray(sp["x"], float)
        gap = float(np.min(np.diff(x))) if len(x) > 1 else 1.0
        x = x + 0.3 * gap * nz[::-1][: len(x)]  # the new data set has different x positions too
        y = np.asarray(sp["y"], float) + nz[: len(x)] * sc
        cont = kafe2.XYContainer(x, y)
    elif t == "indexed":
        d = np.asarray(sp["data"], float) + nz[: sp["n"]] * sc
        cont = kafe2.IndexedContainer(d)
    else:
        ent = list(np.asarray(sp["entries"], float)) + [sp["edges"][0] + 0.3 * (sp["edges"][-1] - sp["edges"][0]) * (1 + v) / 2 for v in nz[:4]]
        cont = kafe2.HistContainer(n_bins=len(sp["edges"]) - 1, bin_range=(sp["edges"][0], sp["edges"][-1]), bin_edges=list(sp["edges"]), fill_data=ent)
    new_sources = []
    as_ = op["as"]
    old_data_sources = [s_ for s_ in sp["sources"] if s_["ref"] == "data"]
    if as_ == "array" and old_data_sources:
        as_ = "container"  # a raw array would silently drop the declared sources; re-declare them on a container instead
    if as_ == "container":
        n = len(sp["x"]) if t == "xy" else (sp["n"] if t == "indexed" else len(sp["edges"]) - 1)
        for s_ in old_data_sources:
            kw = dict(name=s_["name"], relative=bool(s_["relative"]))
            pre = ((s_.get("axis") or "y"),) if t == "xy" else ()
            if s_["kind"] == "simple":
                err = float(s_["err"][0]) if s_.get("scalar") else np.asarray(s_["err"][:n], float)
                cont.add_error(*pre, err, correlation=s_["rho"], **kw)
            else:
                R = np.asarray(s_["R"], float)[:n, :n]
                e = np.asarray(s_["e"], float)[:n]
                if s_["form"] == "cor":
                    cont.add_matrix_error(*pre, R, "cor", err_val=e, **kw)
                else:
                    cont.add_matrix_error(*pre, np.outer(e, e) * R, "cov", **kw)
            if not s_.get("enabled", True):
                cont.disable_error(s_["name"])
        new_sources = [dict(s_) for s_ in old_data_sources]
    if as_ == "container_with_sources" and not (t == "hist" and sp["cost"] in fs.NLL_POISSON):
        s = dict(op["src"])
        s["name"] = f"d{cfg.n_src}"
        cfg.n_src += 1
        s["enabled"] = True
        n = len(sp["x"]) if t == "xy" else (sp["n"] if t == "indexed" else len(sp["edges"]) - 1)
        kw = dict(name=s["name"], relative=bool(s["relative"]))
        pre = ("y",) if t == "xy" else ()
        if s["kind"] == "simple":
            err = float(s["err"][0]) if s.get("scalar") else np.asarray(s["err"][:n], float)
            cont.add_error(*pre, err, correlation=s["rho"], **kw)
        else:
            R = np.asarray(s["R"], float)[:n, :n]
            e = np.asarray(s["e"], float)[:n]
            cont.add_matrix_error(*pre, np.outer(e, e) * R, "cov", **kw)
            s["form"] = "cov"
        new_sources = [s]
    with guard("data-setter"):
        if as_ == "array":
            if t == "xy":
                H.data = [cont.x, cont.y]
            elif t == "indexed":
                H.data = cont.data
            else:
                H.data = cont  # histogram fits only accept containers / numpy histograms
        else:
            H.data = cont
    if t == "xy":
        sp["x"] = [float(v) for v in cont.x]
        sp["y"] = [float(v) for v in cont.y]
    elif t == "indexed":
        sp["data"] = [float(v) for v in cont.data]
    else:
        sp["entries"] = [float(v) for v in ent]
    sp["sources"] = [s for s in sp["sources"] if s["ref"] != "data"] + new_sources


SUBS = [
    Sub("history", lambda tier: strat(tier), run, quick=2400, thorough=40000, about="op-list histories on fits vs a fresh fit built from the folded configuration"),
]
