"""C07 - reported parameter uncertainties obey their definitions.

adapter  MinimizerIMinuit / MinimizerScipyOptimize on analytic quadratic cost surfaces (2-4 parameters, any fixed subset incl.
         non-adjacent ones, errordef in {1.0 (chi2), 0.5 (nll)}): covariance = 2*errordef*H^-1 on the free block with exactly-zero rows and
         columns for fixed parameters, errors = sqrt(diag), correlation = normalisation, hessian, profile points, asymmetric errors and
         contour points against the closed forms of a quadratic form with conditional (fixed) parameters.
fit      fitted problems of C05/C06 (linear and well-posed nonlinear, with x-errors / model-relative errors / constraints / fixed
         parameters, both backends): covariance vs 2 H^-1 of the *reference* cost (generalised eigenvalues), every returned profile point
         vs the reference cost re-minimised with that parameter pinned, asymmetric errors at profile rise 1, contour points at rise n^2,
         XYFit.error_band vs linear propagation of the reported covariance through the analytic parameter derivatives.
"""
import importlib

import numpy as np
from hypothesis import strategies as st
from scipy.optimize import minimize

from .. import fitspec as fs
from .. import strategies as S
from ..core import Discard, Violation, guard
from ..runner import Sub
from .c06 import num_hessian, ref_hessian, reference_minimum

PROPERTY = "C07"
RULE = ("adapter: quadratic surfaces x fixed subsets x errordef x backends; fit: fitted linear / well-posed nonlinear problems x backends x every "
        "free parameter (profiles, asymmetric errors) and one pair (contours); non-trivial = a fixed parameter, or errordef != 1, or a "
        "parameter-dependent covariance, or correlated parameters (|rho| > 0.3); distinct by case hash")
ASSUMPTIONS = [
    "no parameter on a limit (limits are not generated here)",
    "reference Hessian: central differences of the numpy reference cost with steps of 2 % of the parameter uncertainty",
    "covariance judged through the generalised eigenvalues of C_ref^-1 C_reported: within [0.88, 1.12] ([0.8, 1.25] with parameter-dependent covariance) (iminuit HESSE, strategy 1; measured "
    "<= 2.3 %) and [0.97, 1.03] (scipy / numdifftools); linear problems 1 %",
    "profile points within 2e-3 + 1e-3*rise of the re-minimised reference cost; asymmetric errors at rise 1 +- 0.1; contour points at n^2 +- 8 %",
    "adapter level: asymmetric errors are judged for errordef = 1 only (for errordef = 0.5 the generic root finder and MINOS use different "
    "definitions of the rise; fits always use errordef = 1)",
]


def _mins():
    import kafe2  # noqa

    return {"iminuit": importlib.import_module("kafe2.core.minimizers.iminuit_minimizer").MinimizerIMinuit,
            "scipy": importlib.import_module("kafe2.core.minimizers.scipy_optimize_minimizer").MinimizerScipyOptimize}


# ---------------------------------------------------------------------------------------------------
# adapter level

@st.composite
def strat_adapter(draw, tier="quick"):
    n = draw(st.integers(2, 4))
    R = draw(S.corr_matrix(n))
    sig = draw(st.lists(st.floats(0.05, 5.0), min_size=n, max_size=n))
    mu = draw(st.lists(st.floats(-5, 5), min_size=n, max_size=n))
    fixed = draw(st.lists(st.integers(0, n - 1), max_size=n - 1, unique=True))
    return {"n": n, "R": R, "sig": sig, "mu": mu, "fixed": sorted(fixed), "fixed_shift": draw(st.lists(st.floats(-1.5, 1.5), min_size=n, max_size=n)),
            "errordef": draw(st.sampled_from([1.0, 1.0, 0.5])), "backend": draw(st.sampled_from(["iminuit", "scipy"])),
            "offset": draw(st.floats(-20, 20)), "sigma_levels": draw(st.sampled_from([1.0, 2.0, 0.5, 1.5])),
            "start": draw(st.lists(st.floats(-2, 2), min_size=n, max_size=n))}


def run_adapter(case):
    n = case["n"]
    names = ["p%d" % i for i in range(n)]
    sig = np.array(case["sig"])
    Cfull = np.outer(sig, sig) * np.array(case["R"])
    if np.linalg.cond(Cfull) > 1e6:
        raise Discard("ill-conditioned")
    A = np.linalg.inv(Cfull)
    mu = np.array(case["mu"])
    off = case["offset"]
    ed = case["errordef"]
    scale = 1.0 if ed == 1.0 else 0.5  # errordef 0.5: the cost is -ln L = half of the chi2-like form

    def cost(*p):
        d = np.array(p) - mu
        return float(scale * (d @ A @ d)) + off

    cls = _mins()[case["backend"]]
    start = [mu[i] + case["start"][i] * sig[i] for i in range(n)]
    with guard("construct"):
        m = cls(names, start, [0.3 * s for s in sig], cost, errordef=ed)
    F = case["fixed"]
    f = [i for i in range(n) if i not in F]
    vF = np.array([mu[i] + case["fixed_shift"][i] * sig[i] for i in F])
    with guard("fix"):
        for i, v in zip(F, vF):
            m.set(names[i], float(v))
            m.fix(names[i])
    with guard("minimize"):
        m.minimize()
    # closed forms for the conditional quadratic form (in units of the chi2-like form q = d^T A d; cost = scale*q + off)
    Aff = A[np.ix_(f, f)]
    Cff = np.linalg.inv(Aff)
    if F:
        dF = vF - mu[F]
        center = mu[f] - Cff @ A[np.ix_(f, F)] @ dF
        qmin = float(dF @ (A[np.ix_(F, F)] - A[np.ix_(F, f)] @ Cff @ A[np.ix_(f, F)]) @ dF)
    else:
        center = mu[f]
        qmin = 0.0
    # covariance = 2*errordef*H^-1 with H = 2*scale*A_ff  -> errordef/scale * C_ff
    Cwant = np.zeros((n, n))
    Cwant[np.ix_(f, f)] = Cff * (ed / scale)
    sd = np.sqrt(np.diag(Cwant))
    tag = f"{case['backend']} errordef={ed} fixed={F}"
    with guard("results"):
        pv = np.asarray(m.parameter_values, float)
        Cg = np.asarray(m.cov_mat, float)
        eg = np.asarray(m.parameter_errors, float)
        Rg = np.asarray(m.cor_mat, float)
        Hg = np.asarray(m.hessian, float)
        fval = float(m.function_value)
    for j, i in enumerate(f):
        if abs(pv[i] - center[j]) > 0.02 * sd[i]:
            raise Violation(f"adapter-values[{case['backend']}]", f"{tag}: p{i}={pv[i]!r}, conditional optimum {center[j]!r}")
    for i, v in zip(F, vF):
        if pv[i] != v:
            raise Violation("adapter-fixed-moved", f"{tag}: fixed p{i}={pv[i]!r} != {v!r}")
    if abs(fval - (scale * qmin + off)) > 1e-3:
        raise Violation("adapter-fval", f"{tag}: function_value {fval!r} vs {scale * qmin + off!r}")
    sc = np.sqrt(np.outer(np.diag(Cwant), np.diag(Cwant)))
    if F and (np.any(Cg[F, :] != 0) or np.any(Cg[:, F] != 0)):
        raise Violation(f"adapter-cov-fixed-rows[{case['backend']}]", f"{tag}: cov_mat {Cg.tolist()}: rows/columns of fixed parameters must be zero")
    sub = np.ix_(f, f)
    if np.any(np.abs(Cg[sub] - Cwant[sub]) > 0.01 * sc[sub]):
        raise Violation(f"adapter-cov[{case['backend']}:errordef={ed}]", f"{tag}: cov_mat {Cg.tolist()} vs 2*errordef*H^-1 {Cwant.tolist()}")
    if np.any(np.abs(eg - np.sqrt(np.diag(Cg))) > 1e-6 * (sd + 1e-300) + 1e-3 * sd):
        raise Violation(f"adapter-errors[{case['backend']}]", f"{tag}: parameter_errors {eg.tolist()} vs sqrt(diag(cov_mat)) {np.sqrt(np.diag(Cg)).tolist()}")
    with np.errstate(all="ignore"):
        Rw = Cg[sub] / np.sqrt(np.outer(np.diag(Cg)[f], np.diag(Cg)[f]))
    if np.any(np.abs(Rg[sub] - Rw) > 1e-6):
        raise Violation(f"adapter-cor[{case['backend']}]", f"{tag}: cor_mat {Rg.tolist()} is not the normalisation of cov_mat {Cg.tolist()}")
    Hw = np.zeros((n, n))
    Hw[sub] = 2.0 * scale * Aff
    hs = np.sqrt(np.outer(np.diag(Hw)[f], np.diag(Hw)[f]))
    if np.any(np.abs(Hg[sub] - Hw[sub]) > 0.02 * hs):
        raise Violation(f"adapter-hessian[{case['backend']}]", f"{tag}: hessian {Hg.tolist()} vs second derivatives {Hw.tolist()}")
    labels = {case["backend"], f"errordef={ed}"}
    # profile of the first free parameter
    i0 = f[0]
    s_lv = case["sigma_levels"]
    with guard("profile"):
        prof, _ = m.profile(names[i0], sigma=s_lv, size=7, subtract_min=False)
    for xv, yv in zip(prof[0], prof[1]):
        want = scale * (qmin + (xv - center[0]) ** 2 / Cff[0, 0]) + off
        if abs(yv - want) > 2e-3 + 1e-3 * abs(want - fval):
            raise Violation(f"adapter-profile[{case['backend']}]", f"{tag}: profile of p{i0} at {xv!r}: {yv!r}, re-minimised cost {want!r}")
    with guard("parameter_values"):
        pv2 = np.asarray(m.parameter_values, float)
    if np.any(np.abs(pv2 - pv) > 0.02 * np.where(sd > 0, sd, 1.0)):
        raise Violation(f"adapter-moved-by-profile[{case['backend']}]", f"{tag}: {pv.tolist()} -> {pv2.tolist()}")
    if ed == 1.0:
        with guard("asymmetric_parameter_errors"):
            ae = np.asarray(m.asymmetric_parameter_errors, float)
        for j, i in enumerate(f):
            if abs(ae[i, 0] + sd[i]) > 0.03 * sd[i] or abs(ae[i, 1] - sd[i]) > 0.03 * sd[i]:
                raise Violation(f"adapter-asymmetric[{case['backend']}]", f"{tag}: p{i}: {ae[i].tolist()} vs -+{sd[i]!r}")
        for i in F:
            if np.any(ae[i] != 0):
                raise Violation("adapter-asymmetric-fixed", f"{tag}: fixed p{i}: {ae[i].tolist()}")
    if len(f) >= 2 and case["backend"] == "iminuit" and ed == 1.0:
        with guard("contour"):
            cont = m.contour(names[f[0]], names[f[1]], sigma=s_lv, numpoints=10)
        if cont is not None and cont.xy_points is not None:
            xy = np.asarray(cont.xy_points, float)
            B = np.linalg.inv(Cff[:2, :2])
            d = xy - center[:2][:, None]
            rise = np.einsum("ik,ij,jk->k", d, B, d)
            if np.max(np.abs(rise - s_lv ** 2)) > 0.08 * s_lv ** 2:
                raise Violation("adapter-contour", f"{tag}: {s_lv}-sigma contour points have profile rise {rise.min():.4g}..{rise.max():.4g}, expected {s_lv ** 2}")
            labels.add("contour")
    # one more parameter is fixed where it is *after* the minimisation and the covariance matrix is asked for without minimising again.  What that matrix should be
    # is NOT part of the property ("after a fit ..."): on the unchanged tree MINUIT's HESSE can fail in that state and the adapter then hands on a matrix that
    # contradicts its own parameter_errors (seed sweep: cov 2.0, errors 0.577, conditional value 0.333), the scipy adapter returns None.  A facet that compared
    # the values (it caught seeded change C07-d) was therefore withdrawn as over-reach; what remains is what the property does say: rows and columns of fixed
    # parameters are exactly zero in whatever matrix is reported.
    if len(f) >= 2:
        with guard("fix-after-minimize"):
            m.fix(names[f[-1]])
            C2 = m.cov_mat
        if C2 is not None:
            C2 = np.asarray(C2, float)
            Fx = F + [f[-1]]
            if np.any(C2[Fx, :] != 0) or np.any(C2[:, Fx] != 0):
                raise Violation(f"adapter-cov-fixed-rows-after-fix[{case['backend']}]", f"{tag}: after fixing p{f[-1]} too: cov_mat {C2.tolist()}: rows/columns of fixed parameters must be zero")
        with guard("release-after-fix"):
            m.release(names[f[-1]])
        labels.add("fixed_after_minimize")
    nontrivial = bool(F) or ed != 1.0 or np.max(np.abs(np.array(case["R"]) - np.eye(n))) > 0.3
    if F:
        labels.add("fixed")
        if len(F) >= 2 and any(b - a > 1 for a, b in zip(F, F[1:])):
            labels.add("non_adjacent_fixed")
    return {"nontrivial": bool(nontrivial), "labels": sorted(labels)}


# ---------------------------------------------------------------------------------------------------
# fit level

@st.composite
def strat_fit(draw, tier="quick"):
    mini = draw(st.sampled_from(["iminuit", "iminuit", "scipy"]))
    kind = draw(st.sampled_from(["linear", "nonlinear", "nonlinear", "hist", "indexed"]))
    if kind == "linear":
        spec = draw(S.xy_spec(families=["line", "quad", "sincos", "expbase"], costs=("chi2",), n_sources=(1, 3), x_errors=False, model_sources=False, minimizers=(mini,)))
    elif kind == "nonlinear":
        spec = draw(S.xy_spec(families=["expo", "power", "gauss", "logistic", "lorentz"], costs=("chi2",), n_sources=(1, 3), x_errors=True, model_sources=True,
                              constraints=draw(st.booleans()), min_points=7, model_only_first=0.0, noise_scale=0.7, minimizers=(mini,), sigma_rel=(0.004, 0.04)))
        if not any(s["ref"] == "data" and (s.get("axis") or "y") == "y" and not s["relative"] and s.get("enabled", True) and s.get("rho", 0) < 1 for s in spec["sources"]):
            spec["sources"].insert(0, {"name": "base", "ref": "data", "axis": "y", "kind": "simple", "scalar": True, "err": [spec["sigma"]] * 8, "rho": 0.0,
                                       "relative": False, "enabled": True})
    elif kind == "hist":
        spec = draw(S.hist_spec(costs=("nll",), densities=("normal", "expon"), bin_evaluations=("antider",), n_entries=(60, 200), minimizers=(mini,)))
    else:
        spec = draw(S.indexed_spec(costs=("chi2",), n_sources=(1, 2), nonlinear=True, minimizers=(mini,)))
    # relative y uncertainties on values that (nearly) vanish make the problem ill-posed (discarded in run_fit): construct instead of reject
    from ..fitspec import Ref
    vals = np.abs(Ref(spec).model(spec["truth"]))
    if vals.min() < 0.25 * vals.max():
        for s_ in spec["sources"]:
            if s_["relative"] and (s_.get("axis") or "y") == "y":
                s_["relative"] = False
                key = "err" if s_["kind"] == "simple" else "e"
                s_[key] = [v * float(vals.max()) for v in s_[key]]
    return {"spec": spec, "sigma": draw(st.sampled_from([1.0, 1.0, 2.0])), "band_x": draw(st.lists(st.floats(-1.0, 10.0), min_size=3, max_size=3)),
            "do": draw(st.sets(st.sampled_from(["profile", "asym", "contour", "band"]), min_size=1))}


def pinned_min(cost_free, free, pins, x_start):
    """minimise cost_free over the entries of `free` not in pins, starting at x_start (full vector over free)"""
    idx = [i for i, nm in enumerate(free) if nm not in pins]
    base = np.array(x_start, float)
    for i, nm in enumerate(free):
        if nm in pins:
            base[i] = pins[nm]
    if not idx:
        return cost_free(base), base

    def g(v):
        x = base.copy()
        x[idx] = v
        return cost_free(x)
    r = minimize(g, base[idx], method="BFGS", options={"gtol": 1e-8})
    r2 = minimize(g, r.x, method="Nelder-Mead", options={"xatol": 1e-10, "fatol": 1e-12, "maxiter": 2000, "maxfev": 2000})
    best = r2 if r2.fun <= r.fun else r
    x = base.copy()
    x[idx] = best.x
    return float(best.fun), x


def ref_profile(cost_free, free, x_opt, pins_target, steps=4):
    """continuation from the optimum to the pinned target values"""
    x = np.array(x_opt, float)
    val = None
    for k_ in range(1, steps + 1):
        pins = {nm: x_opt[free.index(nm)] + (t - x_opt[free.index(nm)]) * k_ / steps for nm, t in pins_target.items()}
        val, x = pinned_min(cost_free, free, pins, x)
    return val


def run_fit(case):
    spec = dict(case["spec"])
    spec["limits"] = {}
    tb = spec["truth"]
    ref = fs.Ref(spec)
    names = ref.names
    fixed_vals = {nm: (v if v is not None else spec["start"].get(nm, tb[nm])) for nm, v in spec.get("fixed", {}).items()}
    free = [nm for nm in names if nm not in fixed_vals]
    if not free:
        raise Discard("no free parameter")
    if any(s_.get("enabled", True) and s_["relative"] and (s_.get("axis") or "y") == "y" for s_ in spec["sources"]) and not case.get("allow_poorly_determined"):
        vals = np.abs(ref.model(tb))
        if vals.min() < 0.2 * vals.max():
            # an uncertainty proportional to a value that (nearly) vanishes makes the covariance nearly singular there: the cost surface has
            # poles close to the optimum and the backends' scan algorithms are not expected to cope
            raise Discard("relative uncertainty on values close to zero (not well-posed)")
    if ref.x_errors_too_large(tb) and not case.get("allow_poorly_determined"):
        raise Discard("x uncertainties exceed half the spacing of the points (jagged cost surface; not well-posed)")
    spec["start"] = {nm: tb[nm] + (v - tb[nm]) * 0.5 for nm, v in spec["start"].items()}
    try:
        xr, fr, cost_free = reference_minimum(ref, spec, free, fixed_vals)
        if not np.isfinite(fr) or fr >= 1e29:
            raise Discard("reference cost not finite")
        H0, unstable0 = ref_hessian(cost_free, xr)
        if unstable0 > 0.05:
            raise Discard("reference hessian unstable under step change")
        ev = np.linalg.eigvalsh(H0)
    except Discard:
        raise
    except Exception:
        raise Discard("reference minimisation failed")
    if not np.all(np.isfinite(ev)) or ev.min() <= 0 or ev.max() / ev.min() > 5e3:
        raise Discard("reference hessian not PD / cond > 5e3 (ill-posed)")
    sref0 = np.sqrt(np.diag(2 * np.linalg.inv(H0)))
    if np.any(sref0 > 0.3 * np.maximum(np.abs(xr), 1e-12)) and not (spec["type"] == "xy" and ref.fam.linear) and not case.get("allow_poorly_determined"):
        # a parameter whose uncertainty is comparable to its value: the cost surface is far from parabolic within a few sigma and the
        # profile / contour algorithms of the backends are not expected to be exact there
        raise Discard("poorly determined parameter (sigma > 30 % of |value|) in a nonlinear problem")
    backend = spec["minimizer"]
    with guard(f"build[{spec['type']}]"):
        fit = fs.build(spec)
    with guard(f"do_fit[{backend}]"):
        fit.do_fit()
    with guard("results"):
        pv = np.asarray(fit.parameter_values, float)
        Cg = np.asarray(fit.parameter_cov_mat, float)
        eg = np.asarray(fit.parameter_errors, float)
        Rg = np.asarray(fit.parameter_cor_mat, float)
        cmin_reported = float(fit.cost_function_value)
    p_hat = dict(zip(names, pv))
    x_hat = np.array([p_hat[nm] for nm in free])
    if np.any(np.abs(x_hat - xr) > 0.1 * np.sqrt(np.diag(2 * np.linalg.inv(H0)))):
        raise Discard("fit did not reach the reference optimum (C06's subject)")
    fidx = [names.index(nm) for nm in free]
    Fidx = [i for i in range(len(names)) if i not in fidx]
    tag = f"{backend} {spec['type']} {spec.get('family', spec.get('density_name', ''))}"
    # ---- covariance = 2 H^-1 of the full cost at the optimum
    H, unstable = ref_hessian(cost_free, x_hat)
    if unstable > 0.03:
        raise Discard("reference hessian unstable under step change")
    Cref = 2.0 * np.linalg.inv(H)
    if Fidx and (np.any(Cg[Fidx, :] != 0) or np.any(Cg[:, Fidx] != 0)):
        raise Violation(f"cov-fixed-rows[{backend}]", f"{tag}: rows/columns of fixed parameters are not zero: {Cg.tolist()}")
    Cgf = Cg[np.ix_(fidx, fidx)]
    dyn = any(s.get("enabled", True) and (s.get("axis") == "x" or (s["ref"] == "model" and s["relative"])) for s in spec["sources"])
    linear = spec["type"] == "xy" and ref.fam.linear and not dyn
    lo, hi = (0.99, 1.01) if linear else (((0.8, 1.25) if dyn else (0.88, 1.12)) if backend == "iminuit" else (0.97, 1.03))
    try:
        gev = np.real(np.linalg.eigvals(np.linalg.solve(Cref, Cgf)))
    except np.linalg.LinAlgError:
        raise Discard("singular reference covariance")
    if gev.min() < lo or gev.max() > hi:
        raise Violation(f"cov-vs-hessian[{backend}{':dyn' if dyn else ''}]", f"{tag}: generalised eigenvalues of C_ref^-1 C_reported = {np.sort(gev).tolist()} outside [{lo}, {hi}]; "
                        f"reported {Cgf.tolist()}, 2 H^-1 of the full cost {Cref.tolist()} (free: {free})")
    etol = 0.08 if (backend == "iminuit" and not linear) else 0.02  # MIGRAD's running error estimate vs HESSE on non-quadratic surfaces
    labels = {backend, spec["type"]}
    if np.any(np.abs(eg[fidx] - np.sqrt(np.diag(Cgf))) > etol * np.sqrt(np.diag(Cgf))) or (Fidx and np.any(eg[Fidx] != 0)):
        raise Violation(f"errors-vs-cov[{backend}]", f"{tag}: parameter_errors {eg.tolist()} vs sqrt(diag(parameter_cov_mat)) {np.sqrt(np.diag(Cg)).tolist()}")
    with np.errstate(all="ignore"):
        Rw = Cgf / np.sqrt(np.outer(np.diag(Cgf), np.diag(Cgf)))
    if np.any(np.abs(Rg[np.ix_(fidx, fidx)] - Rw) > 1e-6):
        raise Violation(f"cor-vs-cov[{backend}]", f"{tag}: parameter_cor_mat {Rg.tolist()} is not the normalisation of {Cg.tolist()}")
    cmin = cost_free(x_hat)
    sdg = np.sqrt(np.diag(Cgf))
    do = set(case["do"])
    kafe2 = fs.k("kafe2")
    # ---- profiles
    if "profile" in do:
        # "the cost itself, not the rise" is asked for either when the profiler is built or with each request (a per-call False must win over the profiler's default)
        per_call = bool(case["band_x"]) and case["band_x"][0] > 4.5
        cpf = kafe2.ContoursProfiler(fit, profile_points=5) if per_call else kafe2.ContoursProfiler(fit, profile_points=5, profile_subtract_min=False)
        if per_call:
            labels.add("subtract_min_given_per_call")
        for nm in free[:2]:
            with guard("get_profile"):
                prof = cpf.get_profile(nm, sigma=case["sigma"], subtract_min=False) if per_call else cpf.get_profile(nm, sigma=case["sigma"])
            bad = []
            for xv, yv in zip(prof[0], prof[1]):
                want = ref_profile(cost_free, free, x_hat, {nm: float(xv)})
                # kafe2's cost and the reference cost may differ by the finite-difference slope (x errors): compare rises
                if want - cmin < -1e-2:
                    raise Discard("a lower minimum exists within the scanned range (multi-modal surface, not well-posed)")
                d_rise = (yv - cmin_reported) - (want - cmin)
                ptol = (5e-3 + 2e-2 * abs(want - cmin)) if dyn else (2e-3 + 2e-3 * abs(want - cmin))  # dyn: kafe2's finite-difference slope vs analytic slope
                if d_rise < -ptol:
                    # the reference re-minimisation ended above kafe2's value: it is only an upper bound of the profile -> inconclusive
                    labels.add("reference_profile_not_converged")
                    continue
                if d_rise > ptol:
                    bad.append((float(xv), float(yv - cmin_reported), float(want - cmin)))
            if bad:
                isolated = backend == "iminuit" and len(bad) == 1 and len(prof[0]) >= 5
                facet = "profile-isolated-point" if isolated else "profile-point"
                raise Violation(f"{facet}[{backend}{':dyn' if dyn else ''}]", f"{tag}: profile of {nm}: (x, reported rise, re-minimised reference rise) = {bad} of {len(prof[0])} points")
        labels.add("profile")
    # ---- asymmetric errors
    if "asym" in do:
        with guard("asymmetric_parameter_errors"):
            ae = fit.asymmetric_parameter_errors
        if ae is None:
            raise Violation(f"asymmetric-missing[{backend}]", f"{tag}: asymmetric_parameter_errors is None after a converged fit")
        ae = np.asarray(ae, float)
        for j, nm in enumerate(free):
            i = names.index(nm)
            for side in (0, 1):
                rise = ref_profile(cost_free, free, x_hat, {nm: float(x_hat[j] + ae[i, side])}) - cmin
                if abs(rise - 1.0) > 0.1:
                    # does a crossing exist at all on this side (within 4 sigma)?  if the profile never rises by 1 the problem is not
                    # well-posed for this query and the property says nothing
                    sgn = -1.0 if side == 0 else 1.0
                    rises = [ref_profile(cost_free, free, x_hat, {nm: float(x_hat[j] + sgn * k_ * 0.5 * sdg[j])}) - cmin for k_ in range(1, 9)]
                    if min(rises) < -1e-2:
                        raise Discard("a lower minimum exists within the scanned range (multi-modal surface, not well-posed)")
                    if max(rises) < 1.0:
                        raise Discard("profile never rises by 1 within 4 sigma on one side")
                    if not (0.4 <= rises[1] <= 2.5) or any(b < a - 1e-3 for a, b in zip(rises[:6], rises[1:6])):
                        raise Discard("strongly non-parabolic / non-monotone profile (rise at 1 sigma outside [0.4, 2.5]): not well-posed for this query")
                    facet = f"asymmetric-rise[{backend}{':dyn' if dyn else ''}]"
                    if backend == "iminuit":
                        # bug model of KF-C07-6: MINUIT itself flags the MINOS result of this parameter as invalid; kafe2 hands the numbers on
                        try:
                            me = fit._fitter._minimizer._get_iminuit().merrors[nm]
                            if not me.is_valid:
                                facet = "asymmetric-rise-minos-flagged-invalid[iminuit]"
                        except Exception:  # noqa
                            pass
                    raise Violation(facet, f"{tag}: {nm} {'down' if side == 0 else 'up'} error {ae[i, side]!r}: the profile has risen by {rise!r} there, not 1")
        for i in Fidx:
            if np.any(ae[i] != 0):
                raise Violation("asymmetric-fixed", f"{tag}: fixed {names[i]}: {ae[i].tolist()}")
        labels.add("asymmetric")
    # ---- contour
    if "contour" in do and len(free) >= 2 and backend == "iminuit":
        n_s = case["sigma"]
        with guard("contour"):
            cont = fit._fitter.contour(free[0], free[1], sigma=n_s, numpoints=8)
        if cont is not None and cont.xy_points is not None:
            xy = np.asarray(cont.xy_points, float)
            rises = np.array([ref_profile(cost_free, free, x_hat, {free[0]: float(xy[0, k_]), free[1]: float(xy[1, k_])}) - cmin for k_ in range(xy.shape[1])])
            off = np.abs(rises - n_s ** 2) > 0.08 * n_s ** 2 + 0.02
            # the reference re-minimisation is an upper bound of the profile: a point whose reference rise is too *high* is only
            # conclusive if an independent second start confirms it
            for k_ in np.nonzero(off & (rises > n_s ** 2))[0]:
                alt, _x = pinned_min(cost_free, free, {free[0]: float(xy[0, k_]), free[1]: float(xy[1, k_])}, np.array([tb[nm] for nm in free], float))
                rises[k_] = min(rises[k_], alt - cmin)
            off = np.abs(rises - n_s ** 2) > 0.08 * n_s ** 2 + 0.02
            if np.any(off):
                k_ = int(np.argmax(np.abs(rises - n_s ** 2)))
                facet = "contour-isolated-point" if np.mean(off) <= 0.25 else "contour-rise"
                raise Violation(f"{facet}[{backend}]", f"{tag}: {n_s}-sigma contour: two-parameter profile rises at the returned points {np.round(rises, 3).tolist()}, expected {n_s ** 2} "
                                f"(worst point ({xy[0, k_]!r}, {xy[1, k_]!r}))")
            labels.add("contour")
    # ---- error band
    if "band" in do and spec["type"] == "xy":
        xb = np.array(sorted(case["band_x"]))
        with guard("error_band"):
            band = np.asarray(fit.error_band(xb), float)
        pc = ref.pvec(p_hat)
        J = ref.fam.jac(xb, pc)  # canonical order
        J = np.array([J[ref.canon.index(nm)] for nm in free])
        if ref.y_scale:
            J = J * ref.y_scale
        with guard("parameter_cov_mat"):
            Cnow = np.asarray(fit.parameter_cov_mat, float)[np.ix_(fidx, fidx)]
        want = np.sqrt(np.einsum("ik,ij,jk->k", J, Cnow, J))
        if np.any(np.abs(band - want) > 2e-2 * want + 1e-6 * np.max(want) + 1e-9 * float(np.max(np.abs(ref.d)))):  # kafe2 differentiates numerically (numdifftools, step 1e-2*|p|): <= 0.6 % measured
            raise Violation(f"error-band[{backend}]", f"{tag}: error_band({xb.tolist()}) = {band.tolist()}, sqrt(diag(J C J^T)) = {want.tolist()} (fixed: {list(fixed_vals)})")
        labels.add("band")
        # the band follows the covariance matrix of the *latest* fit: fix one more parameter where it is (the optimum stays, the covariance shrinks), fit
        # again and ask for the band at the same points
        if len(free) >= 2 and case.get("band_refit", True):
            try:
                fit.fix_parameter(free[-1])
                fit.do_fit()
                ok2 = bool(fit.errors_valid) and fit.parameter_cov_mat is not None
            except Exception:  # noqa
                ok2 = False
            if ok2:
                free2 = free[:-1]
                f2 = [names.index(nm) for nm in free2]
                with guard("error_band"):
                    band2 = np.asarray(fit.error_band(xb), float)
                p2 = dict(zip(names, np.asarray(fit.parameter_values, float)))
                J2 = ref.fam.jac(xb, ref.pvec(p2))
                J2 = np.array([J2[ref.canon.index(nm)] for nm in free2]) * (ref.y_scale or 1.0)
                C2 = np.asarray(fit.parameter_cov_mat, float)[np.ix_(f2, f2)]
                want2 = np.sqrt(np.clip(np.einsum("ik,ij,jk->k", J2, C2, J2), 0, None))
                if np.all(np.isfinite(want2)) and np.any(np.abs(band2 - want2) > 2e-2 * want2 + 1e-6 * np.max(want2) + 1e-9 * float(np.max(np.abs(ref.d)))):
                    raise Violation(f"error-band-after-refit[{backend}]", f"{tag}: after fixing {free[-1]} at its fitted value and fitting again: error_band({xb.tolist()}) = {band2.tolist()}, "
                                    f"sqrt(diag(J C J^T)) with the new covariance = {want2.tolist()}")
                labels.add("band_after_refit")
    # the fit is still at its optimum
    with guard("parameter_values"):
        pv2 = np.asarray(fit.parameter_values, float)
    if np.any(np.abs(pv2[fidx] - pv[fidx]) > 0.05 * sdg):
        raise Violation(f"moved-by-queries[{backend}]", f"{tag}: {pv.tolist()} -> {pv2.tolist()} after {sorted(do)}")
    rho_max = np.max(np.abs(Rw - np.eye(len(free)))) if len(free) > 1 else 0.0
    if dyn:
        labels.add("dynamic_errors")
    if fixed_vals:
        labels.add("fixed")
    return {"nontrivial": bool(fixed_vals) or dyn or rho_max > 0.3, "labels": sorted(labels)}


KNOWN = {
    # iminuit backend: MinimizerIMinuit.asymmetric_parameter_errors returns the numbers of Minuit.minos() without looking at the validity flags MINUIT
    # attaches to them (merrors[par].is_valid); on non-parabolic profiles MINOS gives up (invalid) and the reported 'error' is not a crossing
    "KF-C07-6": lambda sub, case, v: sub == "fit" and v.facet == "asymmetric-rise-minos-flagged-invalid[iminuit]",
    # MinimizerBase._calculate_asymmetric_parameter_errors (used by the scipy backend) re-minimises with one parameter pinned inside a secant
    # root finder; every inner minimize() recomputes the parameter covariance (numdifftools Hessian + inverse) and nothing checks whether
    # the inner minimisations converged: on well-posed fits the query raises LinAlgError('Singular matrix') or stops at a rise != 1.
    "KF-C07-1": lambda sub, case, v: sub == "fit" and case["spec"].get("minimizer") == "scipy" and
    (v.facet.startswith("asymmetric_parameter_errors/raises:LinAlgError") or v.facet.startswith("asymmetric-rise[scipy")),
    # MinimizerScipyOptimize.profile computes each point with SLSQP under an equality constraint, warm-started from the previous point and
    # without any convergence check: once a far-away point has pulled the other parameters away, later points (even the optimum itself) are
    # reported far above the true profile.
    "KF-C07-2": lambda sub, case, v: (sub == "fit" and case["spec"].get("minimizer") == "scipy" and v.facet.startswith("profile-point[scipy"))
    or (sub == "adapter" and v.facet == "adapter-profile[scipy]"),
    # Minuit.mnprofile occasionally fails to re-minimise at a single scan point (typically the first, farthest one) on surfaces with
    # parameter-dependent covariance; kafe2 ignores the status flags ("TODO: check statuses") and returns the value.  Bug model: exactly one
    # of >= 5 points is above the re-minimised cost, all others agree.
    "KF-C07-5": lambda sub, case, v: sub == "fit" and v.facet.startswith("profile-isolated-point[iminuit"),
    # iminuit's mncontour occasionally returns a single point that is not on the contour when the contour is strongly non-elliptical; kafe2
    # hands the points on unchecked.  Bug model: at most a quarter of the points is off, all others sit on the level.
    "KF-C07-4": lambda sub, case, v: sub == "fit" and v.facet == "contour-isolated-point[iminuit]",
    "KF-C07-3": lambda sub, case, v: sub == "fit" and case["spec"].get("minimizer") == "scipy" and v.facet.startswith("cov-vs-hessian[scipy"),
}

SUBS = [
    Sub("adapter", lambda tier: strat_adapter(tier), run_adapter, quick=800, thorough=20000, about="minimizer adapters on analytic quadratic surfaces (errordef, fixed subsets)"),
    Sub("fit", lambda tier: strat_fit(tier), run_fit, quick=480, thorough=8000, about="fitted problems: covariance vs 2H^-1, profile points, asymmetric errors, contours, error band"),
]
