"""C04 - graph reads equal a from-scratch evaluation; unchanged inputs are not recomputed.

A case is an op-list.  Ops create nodes (Parameter, Function with counted callables, operator expressions, Alias,
Tuple, Array, Fallback, add_function by signature with defaults / Empty placeholders, cell-reading functions with
dependency-only edges) and mutate/read the graph (assign, func=, replace, Nexus.add(existing_behavior=...),
Tuple[i]=, add_dependency, freeze (directly after a read), unfreeze, read, get_value_dict).  All node references are
indices taken modulo the number of eligible nodes, so every sub-list of a history is a history.

Oracle: `Model` below - the harness' own description of the graph (definitions + parameter values + frozen
snapshots), evaluated recursively from scratch at every read.  Recomputation oracle: per op every counted callable
may *successfully* run at most once, and only if the model says one of its transitive inputs was assigned or
structurally changed since that callable last ran.
"""
import importlib

import numpy as np
from hypothesis import strategies as st

from ..core import Discard, Violation, guard
from ..runner import Sub

PROPERTY = "C04"
RULE = ("op-lists over node creation / assignment / func replacement / node replacement / Nexus.add with existing_behavior / "
        "Tuple element assignment / add_dependency (incl. cycle-closing) / freeze-after-read / unfreeze / reads; non-trivial = a "
        "mutation applied to a node that has at least one ancestor holding a cached (previously read) value, followed later by a "
        "read of such an ancestor; distinct by hash of the op-list")
ASSUMPTIONS = [
    "values are small integers (exact arithmetic); Array values are float64 copies of them",
    "freeze is issued directly after a successful read of that node (the pattern FitBase._pre_fit_iteration uses); a freeze without a preceding read (node possibly "
    "stale) makes the values of that node and of everything above it 'not defined by the property' until it is unfrozen - reads are performed but not compared; "
    "Parameters are never frozen",
    "node.replace(other) / Tuple[i]=x / add_child are only generated when they do not close a cycle (only Nexus.add_dependency "
    "and Nexus.add are documented to check); Nexus.add_dependency is also generated with cycle-closing edges and must raise "
    "and leave the graph unchanged",
    "dependency-only edges are added to Function nodes only (for Tuple/Fallback/Alias children are the definition)",
    "a callable that raises leaves no cached value, so only successful evaluations are counted for the at-most-once rule",
    "'assigned or structurally changed' (superset of 'assigned') is used for the only-if rule: func=, replace, element "
    "assignment, added dependency and unfreeze count as changes of the node they are applied to",
]

MOD = 1009


def _nx():
    import kafe2  # noqa

    return importlib.import_module("kafe2.core.fitters.nexus")


# pool of pure functions by arity -------------------------------------------------------------------

def _f_neg(a): return -a
def _f_inc(a): return a + 1
def _f_sq(a): return (a * a) % MOD
def _f_add(a, b): return a + b
def _f_sub(a, b): return a - b
def _f_mul(a, b): return (a * b) % MOD
def _f_fdiv(a, b): return a // b  # raises ZeroDivisionError
def _f_max(a, b): return max(a, b)
def _f_mad(a, b, c): return (a * b + c) % MOD
def _f_sel(a, b, c): return b if a > 0 else c


POOL = {1: [_f_neg, _f_inc, _f_sq], 2: [_f_add, _f_sub, _f_mul, _f_fdiv, _f_max], 3: [_f_mad, _f_sel]}
BINOPS = ["add", "sub", "mul", "floordiv", "mod"]
UNOPS = ["neg", "abs", "pos"]
import operator as _op

_BIN = {"add": _op.add, "sub": _op.sub, "mul": _op.mul, "floordiv": _op.floordiv, "mod": _op.mod}
_UN = {"neg": _op.neg, "abs": abs, "pos": _op.pos}


class Rec:
    __slots__ = ("idx", "kind", "typ", "obj", "value", "fid", "arity", "children", "npar", "cell", "op", "frozen", "snapshot",
                 "counter", "own_change", "last_eval", "ever_read", "name")

    def __init__(self, idx, kind, typ, obj, **kw):
        self.idx, self.kind, self.typ, self.obj = idx, kind, typ, obj
        self.value = kw.get("value")
        self.fid = kw.get("fid")
        self.arity = kw.get("arity")
        self.children = list(kw.get("children", []))  # ordered like the real node's children
        self.npar = kw.get("npar", len(self.children))  # first npar children are positional parameters (func kinds)
        self.cell = kw.get("cell")
        self.op = kw.get("op")
        self.frozen = False
        self.snapshot = None
        self.counter = kw.get("counter")
        self.own_change = kw.get("clock", 0)
        self.last_eval = None
        self.ever_read = False
        self.name = kw.get("name")


class ModelError(Exception):
    def __init__(self, etype):
        self.etype = etype


class Ambiguous(Exception):
    """the from-scratch value is not defined by the property's wording: a node that was frozen while it was stale ("the value it had when it was frozen" could be
    the last evaluated one or the one it would have had) is below the node being read.  Reads are still performed, comparisons resume after unfreeze."""


AMBIG = object()


class World:
    def __init__(self):
        self.nx = _nx()
        self.nexus = self.nx.Nexus()
        self.recs = []
        self.registry = {}  # name -> idx, insertion ordered like Nexus._nodes (without __root__)
        self.cells = []
        self.cell_sig = []
        self.clock = 0
        self.labels = set()
        self.cached_since = {}  # idx -> True when the node holds a cached value from an earlier successful read
        self.pending_nontrivial = set()  # ancestors that were cached when something below them was mutated
        self.nontrivial = False
        self.fallback_taint = set()  # fallbacks that have been read while one of their alternatives failed (KF-C04-1)

    # ---- helpers
    def new_rec(self, kind, typ, obj, **kw):
        r = Rec(len(self.recs), kind, typ, obj, clock=self.clock, **kw)
        if obj is not None:
            nm = f"n{r.idx}"
            obj.name = nm
            r.name = nm
        self.recs.append(r)
        return r

    def wrap_callable(self, fn, counter):
        def wrapped(*a):
            out = fn(*a)
            counter["n"] += 1
            return out
        wrapped.__name__ = fn.__name__
        return wrapped

    def pick(self, ref, pred):
        cand = [r for r in self.recs if pred(r)]
        if not cand:
            return None
        return cand[ref % len(cand)]

    def descendants(self, idx, acc=None):
        acc = set() if acc is None else acc
        for c in self.recs[idx].children:
            if c not in acc:
                acc.add(c)
                self.descendants(c, acc)
        return acc

    def ancestors(self, idx):
        out = set()
        changed = True
        while changed:
            changed = False
            for r in self.recs:
                if r.idx in out:
                    continue
                if idx in r.children or any(c in out for c in r.children):
                    out.add(r.idx)
                    changed = True
        return out

    def transitive_change(self, idx, seen=None):
        seen = {} if seen is None else seen
        if idx in seen:
            return seen[idx]
        r = self.recs[idx]
        t = r.own_change
        seen[idx] = t
        for c in r.children:
            t = max(t, self.transitive_change(c, seen))
        seen[idx] = t
        return t

    # ---- model evaluation from scratch
    def ev(self, idx, depth=0):
        if depth > 200:
            raise RuntimeError("model recursion: cycle in model graph (harness bug)")
        r = self.recs[idx]
        if r.frozen:
            if r.snapshot is AMBIG:
                raise Ambiguous()
            return r.snapshot
        k = r.kind
        if k == "param":
            return r.value
        if k == "empty":
            raise ModelError(TypeError)
        if k in ("func", "opfunc"):
            vals = [self.ev(c, depth + 1) for c in r.children]  # children first, in order (deps included)
            args = vals[: r.npar]
            try:
                if r.cell is not None:
                    return self.cells[r.cell] * 3 + 1
                if k == "opfunc":
                    f = _BIN.get(r.op) or _UN[r.op]
                    return f(*args)
                return POOL[r.arity][r.fid % len(POOL[r.arity])](*args)
            except ModelError:
                raise
            except Exception as e:
                raise ModelError(type(e))
        if k == "tsum":
            v = self.ev(r.children[0], depth + 1)
            try:
                return sum(v)
            except Exception as e:
                raise ModelError(type(e))
        if k == "alias":
            return self.ev(r.children[0], depth + 1)
        if k == "tuple":
            return tuple(self.ev(c, depth + 1) for c in r.children)
        if k == "array":
            vals = [self.ev(c, depth + 1) for c in r.children]
            try:
                return np.array(vals, dtype=float)
            except Exception as e:
                raise ModelError(type(e))
        if k == "fallback":
            for c in r.children:
                try:
                    return self.ev(c, depth + 1)
                except ModelError:
                    self.fallback_taint.add(idx)  # an alternative failed while this fallback was being read
                    continue
            raise ModelError(RuntimeError)
        raise RuntimeError(k)

    def model_read(self, idx):
        try:
            return ("ok", self.ev(idx))
        except ModelError as e:
            return ("err", e.etype)
        except Ambiguous:
            return ("ambiguous", None)

    def real_read(self, idx):
        try:
            v = self.recs[idx].obj.value
        except Exception as e:  # the graph propagates evaluation errors of user functions
            return ("err", type(e))
        if isinstance(v, np.ndarray):
            v = v.copy()
        return ("ok", v)

    @staticmethod
    def same(a, b):
        if a[0] != b[0]:
            return False
        if a[0] == "err":
            return a[1] is b[1]
        x, y = a[1], b[1]
        if isinstance(x, np.ndarray) or isinstance(y, np.ndarray):
            return isinstance(x, np.ndarray) and isinstance(y, np.ndarray) and np.array_equal(x, y, equal_nan=x.dtype.kind == "f" and y.dtype.kind == "f")
        if isinstance(x, float) and isinstance(y, float) and x != x and y != y:
            return type(x) is type(y)  # numpy scalars: 0.0 // 0.0 is nan, not ZeroDivisionError
        return type(x) is type(y) and x == y or (x == y and not isinstance(x, tuple))

    def possible_errors(self, idx, seen=None):
        """exception types that evaluating idx can surface when more than one input fails: which failing input is met first is an
        evaluation-order detail (kafe2 refreshes stale children before it reads the parameter values) that the property does not fix"""
        seen = set() if seen is None else seen
        if idx in seen:
            return set()
        seen.add(idx)
        out = set()
        m = self.model_read(idx)
        if m[0] == "err":
            out.add(m[1])
        r = self.recs[idx]
        if r.kind != "fallback":
            for c in r.children:
                out |= self.possible_errors(c, seen)
        return out

    def compare_read(self, idx, where):
        m = self.model_read(idx)
        g = self.real_read(idx)
        r = self.recs[idx]
        if m[0] == "ambiguous":
            self.labels.add("read_above_node_frozen_while_stale")
            self.cached_since[idx] = True
            return ("ambiguous", None)
        if g[0] == "err" and m[0] == "err" and g[1] is not m[1] and g[1] in self.possible_errors(idx):
            self.labels.add("several_failing_inputs")
            return g
        if not self.same(g, m):
            if self.fallback_taint & (self.descendants(idx) | {idx}):
                raise Violation("read-value:below-fallback-with-failed-alternative",
                                f"{where}: node n{idx} ({r.kind}) read {_fmt(g)} but from-scratch evaluation gives {_fmt(m)}; a Fallback at or "
                                f"below it was read earlier while one of its alternatives raised", observed=_fmt(g), expected=_fmt(m))
            raise Violation(f"read-value:{r.kind}", f"{where}: node n{idx} ({r.kind}) read {_fmt(g)} but from-scratch evaluation gives {_fmt(m)}",
                            observed=_fmt(g), expected=_fmt(m))
        if g[0] == "ok":
            r.ever_read = True
            if idx in self.pending_nontrivial:
                self.nontrivial = True
            self.cached_since[idx] = True
            for d in self.descendants(idx):
                self.cached_since[d] = True
        return g

    def note_mutation(self, idx):
        """a mutation was applied to node idx: remember which ancestors held cached values"""
        for a in self.ancestors(idx):
            if self.cached_since.get(a):
                self.pending_nontrivial.add(a)
                self.labels.add("mutation_below_cached_ancestor")

    def counters(self):
        return {r.idx: r.counter["n"] for r in self.recs if r.counter is not None}

    def check_counters(self, before, where):
        for r in self.recs:
            if r.counter is None:
                continue
            d = r.counter["n"] - before.get(r.idx, 0)
            if d > 1:
                raise Violation("recompute:more-than-once", f"{where}: callable of n{r.idx} ran {d} times during one operation")
            if d == 1:
                if r.last_eval is not None and self.transitive_change(r.idx) <= r.last_eval:
                    raise Violation("recompute:without-change", f"{where}: callable of n{r.idx} re-ran although no direct or transitive input "
                                    f"was assigned or changed since its last evaluation (step {r.last_eval})")
                r.last_eval = self.clock

    def register(self, idx):
        """mirror Nexus.add(node, add_children=True) for a node whose name is not yet registered"""
        r = self.recs[idx]
        for c in r.children:
            if self.recs[c].name not in self.registry:
                self.register(c)
        self.registry[r.name] = idx


def _fmt(res):
    if res[0] == "err":
        return f"raises {getattr(res[1], '__name__', res[1])}"
    v = res[1]
    if isinstance(v, np.ndarray):
        return f"array{v.tolist()}"
    return repr(v)


# ---------------------------------------------------------------------------------------------------
# interpreter of one op on both the real graph and the model

def _scalar(r): return r.typ == "s"
def _tuple(r): return r.typ == "t"


def apply_op(w, op):
    nx = w.nx
    k = op["op"]
    w.clock += 1
    before = w.counters()
    where = f"step {w.clock} {k}"

    def arg(a, pred=_scalar):
        """resolve {'ref':i} / {'lit':v} into (real argument, child idx or None)"""
        if "lit" in a:
            return a["lit"], None
        r = w.pick(a["ref"], pred)
        if r is None:
            return a.get("alt", 1), None
        return r.obj, r.idx

    def adopt_literals(node, child_idx):
        """implicit Parameter nodes created for literals get records of their own"""
        out = []
        for real_child, ci in zip(node.get_children(), child_idx):
            if ci is None:
                rr = w.new_rec("param", "s", real_child, value=real_child.value)
                out.append(rr.idx)
            else:
                out.append(ci)
        return out

    if k == "param":
        with guard("create"):
            node = nx.Parameter(op["v"])
        r = w.new_rec("param", "s", node, value=op["v"])
        if op.get("nx"):
            with guard("nexus.add"):
                w.nexus.add(node)
            w.register(r.idx)
    elif k == "func":
        ar = len(op["args"])
        fn = POOL[ar][op["f"] % len(POOL[ar])]
        counter = {"n": 0}
        reals, cidx = zip(*[arg(a) for a in op["args"]])
        with guard("create"):
            node = nx.Function(w.wrap_callable(fn, counter), name="tmp", parameters=list(reals))
        children = adopt_literals(node, cidx)
        r = w.new_rec("func", "s", node, fid=op["f"], arity=ar, children=children, counter=counter)
        if len(set(children)) < len(children):
            w.labels.add("repeated_parameter")
        if op.get("nx"):
            with guard("nexus.add"):
                w.nexus.add(node)
            w.register(r.idx)
    elif k == "cellfunc":
        # zero-argument function reading external state; a dependency-only edge to a signal parameter notifies it
        ci = op["cell"] % 3
        while len(w.cells) <= ci:
            w.cells.append(0)
            with guard("create"):
                sig = nx.Parameter(0)
            sr = w.new_rec("param", "s", sig, value=0)
            w.cell_sig.append(sr.idx)
            with guard("nexus.add"):
                w.nexus.add(sig)
            w.register(sr.idx)
        counter = {"n": 0}
        cells = w.cells

        def read_cell(_ci=ci):
            return cells[_ci] * 3 + 1
        fn = w.wrap_callable(read_cell, counter)
        r = w.new_rec("func", "s", None, arity=0, children=[], npar=0, cell=ci, counter=counter)
        r.name = f"n{r.idx}"
        with guard("nexus.add_function"):
            node = w.nexus.add_function(fn, func_name=r.name, par_names=[])
        r.obj = node
        w.registry[r.name] = r.idx
        with guard("nexus.add_dependency"):
            w.nexus.add_dependency(r.name, w.recs[w.cell_sig[ci]].name)
        r.children = [w.cell_sig[ci]]
        w.labels.add("dependency_only_edge")
    elif k == "tsum":
        t = w.pick(op["arg"], _tuple)
        if t is None:
            return "skip"
        counter = {"n": 0}
        with guard("create"):
            node = nx.Function(w.wrap_callable(sum, counter), name="tmp", parameters=[t.obj])
        r = w.new_rec("tsum", "s", node, children=[t.idx], counter=counter)
    elif k == "binop":
        a, ai = arg(op["a"])
        b, bi = arg(op["b"])
        if ai is None and bi is None:
            return "skip"
        name = op["name"]
        with guard("create"):
            if ai is not None:
                node = getattr(a, f"__{name}__")(b)
            else:
                node = getattr(b, f"__r{name}__")(a)
        children = adopt_literals(node, [ai, bi])
        w.new_rec("opfunc", "s", node, op=name, children=children)
        w.labels.add("operator_expression")
    elif k == "unop":
        a, ai = arg(op["a"])
        if ai is None:
            return "skip"
        with guard("create"):
            node = getattr(a, f"__{op['name']}__")()
        w.new_rec("opfunc", "s", node, op=op["name"], children=[ai])
        w.labels.add("operator_expression")
    elif k == "alias":
        t = w.pick(op["ref"], lambda r: True)
        if t is None:
            return "skip"
        with guard("create"):
            node = nx.Alias(t.obj)
        r = w.new_rec("alias", t.typ, node, children=[t.idx])
        if t.kind == "alias":
            w.labels.add("alias_of_alias")
        if op.get("nx"):
            with guard("nexus.add"):
                w.nexus.add(node)
            w.register(r.idx)
    elif k == "tuple":
        if not op["elems"]:
            return "skip"
        reals, cidx = zip(*[arg(a) for a in op["elems"]])
        cls = nx.Array if op.get("array") else nx.Tuple
        with guard("create"):
            node = cls(list(reals))
        children = adopt_literals(node, cidx)
        w.new_rec("array" if op.get("array") else "tuple", "t", node, children=children)
    elif k == "fallback":
        alts = [w.pick(a, _scalar) for a in op["alts"]]
        alts = [a for a in alts if a is not None]
        if not alts:
            return "skip"
        with guard("create"):
            node = nx.Fallback([a.obj for a in alts])
        w.new_rec("fallback", "s", node, children=[a.idx for a in alts])
        w.labels.add("fallback")
    elif k == "sigfunc":
        # Nexus.add_function by signature: parameter names are existing nexus names or fresh ones (default or Empty)
        ar = len(op["pars"])
        base = POOL[ar][op["f"] % len(POOL[ar])]
        names, defaults, children, pending = [], [], [], []
        reg_scalar = [i for i in w.registry.values() if w.recs[i].typ == "s"]
        for j, p in enumerate(op["pars"]):
            if p["how"] == "existing" and reg_scalar:
                i = reg_scalar[p["ref"] % len(reg_scalar)]
                if w.recs[i].name in names:
                    return "skip"
                names.append(w.recs[i].name)
                defaults.append(None)
                children.append(i)
            else:
                nm = f"fresh{w.clock}_{j}"
                names.append(nm)
                defaults.append(p["default"] if p["how"] == "default" else None)
                pending.append((j, nm, p["default"] if p["how"] == "default" else None, p["how"] == "default"))
                children.append(None)
        # python requires non-default parameters before default ones
        seen_default = False
        for (nm, d) in zip(names, defaults):
            if d is not None:
                seen_default = True
            elif seen_default:
                return "skip"
        sig = ", ".join(nm if d is None else f"{nm}={d}" for nm, d in zip(names, defaults))
        ns = {"_base": base}
        exec(f"def _sigf({sig}):\n    return _base({', '.join(names)})\n", ns)
        counter = {"n": 0}
        fn = w.wrap_callable(ns["_sigf"], counter)
        import functools
        fn = functools.wraps(ns["_sigf"])(fn)  # keeps the signature visible to inspect.signature
        r_idx = len(w.recs) + len(pending)
        fname = f"n{r_idx}"
        with guard("nexus.add_function"):
            node = w.nexus.add_function(fn, func_name=fname)
        for (j, nm, d, has_default) in pending:
            real_child = node.parameters[j]
            if has_default:
                rr = Rec(len(w.recs), "param", "s", real_child, value=d, clock=w.clock)
            else:
                rr = Rec(len(w.recs), "empty", "s", real_child, clock=w.clock)
                w.labels.add("empty_placeholder")
            rr.name = nm
            w.recs.append(rr)
            w.registry[nm] = rr.idx
            children[j] = rr.idx
        r = Rec(len(w.recs), "func", "s", node, fid=op["f"], arity=ar, children=children, counter=counter, clock=w.clock)
        r.name = fname
        assert r.idx == r_idx
        w.recs.append(r)
        w.registry[fname] = r.idx
        w.labels.add("add_function_by_signature")
    elif k == "assign":
        used = {c for r in w.recs for c in r.children}
        p = None
        if op.get("used", True):  # prefer parameters that something depends on
            p = w.pick(op["p"], lambda r: r.kind == "param" and r.idx in used and r.idx not in w.cell_sig)
        if p is None:
            p = w.pick(op["p"], lambda r: r.kind == "param" and r.idx not in w.cell_sig)
        if p is None:
            return "skip"
        w.note_mutation(p.idx)
        with guard("assign"):
            p.obj.value = op["v"]
        p.value = op["v"]
        p.own_change = w.clock
    elif k == "setcell":
        if not w.cells:
            return "skip"
        ci = op["cell"] % len(w.cells)
        w.cells[ci] = op["v"]
        sig = w.recs[w.cell_sig[ci]]
        w.note_mutation(sig.idx)
        with guard("assign"):
            sig.obj.value = sig.value  # signal: external state changed
        sig.own_change = w.clock
        w.labels.add("external_state_signalled")
    elif k == "setfunc":
        f = w.pick(op["n"], lambda r: r.kind == "func" and r.cell is None and r.arity and r.arity > 0)
        if f is None:
            return "skip"
        fn = POOL[f.arity][op["f"] % len(POOL[f.arity])]
        w.note_mutation(f.idx)
        if w.cached_since.get(f.idx):
            w.pending_nontrivial.add(f.idx)
        with guard("func-setter"):
            f.obj.func = w.wrap_callable(fn, f.counter)
        f.fid = op["f"]
        f.own_change = w.clock
        w.labels.add("func_replaced")
    elif k == "replace":
        a = w.pick(op["a"], lambda r: True)
        if a is None:
            return "skip"
        b = w.pick(op["b"], lambda r: r.typ == a.typ and r.idx != a.idx and r.kind != "empty")
        if b is None:
            return "skip"
        if b.idx in w.ancestors(a.idx):
            return "skip"  # would close a cycle; node.replace is not documented to check
        if a.idx in w.cell_sig:
            return "skip"  # the signal parameter of an external cell is part of the harness protocol
        parents = [r for r in w.recs if a.idx in r.children]
        w.note_mutation(a.idx)
        with guard("replace"):
            a.obj.replace(b.obj)
        for p in parents:
            p.children = [b.idx if c == a.idx else c for c in p.children]
            p.own_change = w.clock
        # (names in the Nexus registry keep pointing at the old object: node.replace does not touch the registry)
        if parents:
            w.labels.add("replace_with_parents")
        if len(parents) > 1:
            w.labels.add("replace_shared_subexpression")
    elif k == "nxadd":
        if not w.registry:
            return "skip"
        names = list(w.registry)
        name = names[op["name_of"] % len(names)]
        old = w.recs[w.registry[name]]
        beh = op["beh"]
        if old.idx in w.cell_sig:
            return "skip"  # the signal parameter of an external cell is part of the harness protocol
        # build the new node (parameter or function of non-ancestors of the old node)
        if op["new"]["kind"] == "param" or old.typ != "s":
            if old.typ != "s":
                return "skip"
            with guard("create"):
                node = nx.Parameter(op["new"]["v"], name=name)
            new = Rec(len(w.recs), "param", "s", node, value=op["new"]["v"], clock=w.clock)
        else:
            forbidden = w.ancestors(old.idx) | {old.idx}
            c = w.pick(op["new"]["arg"], lambda r: r.typ == "s" and r.idx not in forbidden)
            if c is None:
                return "skip"
            counter = {"n": 0}
            with guard("create"):
                node = nx.Function(w.wrap_callable(POOL[1][op["new"]["f"] % 3], counter), name=name, parameters=[c.obj])
            new = Rec(len(w.recs), "func", "s", node, fid=op["new"]["f"], arity=1, children=[c.idx], counter=counter, clock=w.clock)
        new.name = name
        will_replace = beh == "replace" or (beh == "replace_if_empty" and old.kind == "empty") or (beh == "replace_if_alias" and old.kind == "alias")
        will_raise = beh == "fail" or (beh in ("replace_if_empty", "replace_if_alias") and not will_replace)
        if will_replace:
            w.note_mutation(old.idx)
        try:
            w.nexus.add(node, existing_behavior=beh)
            raised = False
        except ValueError:
            raised = True
        except Exception as e:
            raise Violation("nexus.add/raises", f"{where}: {type(e).__name__}: {e}")
        if raised != will_raise:
            raise Violation("nexus.add/existing_behavior", f"{where}: existing_behavior={beh} on a {old.kind} node: raised={raised}, expected raised={will_raise}")
        if will_replace:
            w.recs.append(new)
            parents = [r for r in w.recs if old.idx in r.children]
            for p in parents:
                p.children = [new.idx if c == old.idx else c for c in p.children]
                p.own_change = w.clock
            for c in new.children:
                if w.recs[c].name not in w.registry:
                    w.register(c)
            w.registry[name] = new.idx
            w.labels.add(f"nexus_add_{beh}")
    elif k == "setitem":
        t = w.pick(op["t"], lambda r: r.kind in ("tuple", "array"))
        if t is None or not t.children:
            return "skip"
        i = op["i"] % len(t.children)
        x, xi = arg(op["x"])
        if xi is not None and (xi == t.idx or xi in w.ancestors(t.idx)):
            return "skip"
        w.note_mutation(t.idx)
        if w.cached_since.get(t.idx):
            w.pending_nontrivial.add(t.idx)
        with guard("tuple-setitem"):
            t.obj[i] = x
        if xi is None:
            rr = w.new_rec("param", "s", t.obj[i], value=x)
            xi = rr.idx
        t.children[i] = xi
        t.own_change = w.clock
        w.labels.add("tuple_setitem")
    elif k == "adddep":
        f = w.pick(op["n"], lambda r: r.kind in ("func", "opfunc"))
        if f is None:
            return "skip"
        via_nexus = op["via"] == "nexus"
        if via_nexus:
            reg = [i for i in w.registry.values()]
            if f.name not in w.registry or w.registry[f.name] != f.idx or not reg:
                return "skip"
            d = w.recs[reg[op["d"] % len(reg)]]
        else:
            d = w.pick(op["d"], lambda r: True)
        closes_cycle = d.idx == f.idx or d.idx in w.ancestors(f.idx)
        if d.kind == "empty":
            return "skip"
        if closes_cycle and not via_nexus:
            return "skip"
        if closes_cycle:
            w.labels.add("cycle_closing_dependency")
            snap = _structure(w)
            try:
                w.nexus.add_dependency(f.name, d.name)
            except ValueError:
                pass
            except RecursionError:
                raise Violation("cycle/not-rejected", f"{where}: RecursionError instead of rejection")
            else:
                raise Violation("cycle/not-rejected", f"{where}: dependency n{f.idx} -> n{d.idx} closes a cycle but was accepted")
            after = _structure(w)
            if after != snap:
                raise Violation("cycle/graph-changed", f"{where}: rejected cyclic dependency n{f.idx} -> n{d.idx} left the edge in the graph")
        else:
            w.note_mutation(f.idx)
            with guard("add_dependency"):
                if via_nexus:
                    w.nexus.add_dependency(f.name, d.name)
                else:
                    f.obj.add_child(d.obj)
            f.children.append(d.idx)
            f.own_change = w.clock
            w.labels.add("dependency_only_edge")
    elif k == "freeze":
        n = w.pick(op["n"], lambda r: r.kind not in ("param", "empty") and not r.frozen)
        if n is None:
            return "skip"
        g = w.compare_read(n.idx, where)
        if g[0] != "ok":
            w.check_counters(before, where)
            return "skip"
        with guard("freeze"):
            n.obj.freeze()
        n.frozen = True
        n.snapshot = g[1]
        w.labels.add("freeze")
    elif k == "freeze_stale":
        # freeze without reading first (the node may be stale): what it returns while frozen is left open, but once it is unfrozen every read must again equal
        # the from-scratch evaluation - parents that were evaluated meanwhile must not keep what they computed from the frozen value
        n = w.pick(op["n"], lambda r: r.kind not in ("param", "empty") and not r.frozen)
        if n is None:
            return "skip"
        with guard("freeze"):
            n.obj.freeze()
        n.frozen = True
        n.snapshot = AMBIG
        w.labels.add("freeze_without_read")
    elif k == "unfreeze":
        n = w.pick(op["n"], lambda r: r.frozen)
        if n is None:
            return "skip"
        w.note_mutation(n.idx)
        if w.cached_since.get(n.idx):
            w.pending_nontrivial.add(n.idx)
        with guard("unfreeze"):
            n.obj.unfreeze()
        n.frozen = False
        n.snapshot = None
        n.own_change = w.clock
        w.labels.add("unfreeze")
    elif k == "read":
        n = None
        if op.get("top", True):  # prefer nodes that compute something
            n = w.pick(op["n"], lambda r: r.kind not in ("param", "empty"))
        if n is None:
            n = w.pick(op["n"], lambda r: True)
        if n is None:
            return "skip"
        w.compare_read(n.idx, where)
        if any(w.recs[d].frozen for d in w.descendants(n.idx)):
            w.labels.add("read_through_frozen")
    elif k == "readall":
        beh = op["beh"]
        expected = {}
        err_first = None
        errlist = []
        if any(w.model_read(idx)[0] == "ambiguous" for idx in w.registry.values()):
            try:
                w.nexus.get_value_dict(error_behavior=beh)
            except Exception:  # noqa
                pass
            w.labels.add("get_value_dict_not_compared_node_frozen_while_stale")
            return None
        for name, idx in w.registry.items():
            m = w.model_read(idx)
            if m[0] == "ok":
                expected[name] = m
            else:
                if err_first is None:
                    err_first = m
                errlist.append(name)
                if beh == "none":
                    expected[name] = ("ok", None)
                elif beh == "exception_as_value":
                    expected[name] = m
        try:
            got = w.nexus.get_value_dict(error_behavior=beh)
            raised = None
        except Exception as e:
            raised = type(e)
        if beh == "fail" and err_first is not None:
            all_err = set()
            for nm_ in errlist:
                all_err |= w.possible_errors(w.registry[nm_])
            if raised is not err_first[1] and raised not in all_err:  # which failing node is met first is an evaluation-order detail
                raise Violation("get_value_dict", f"{where}: expected {err_first[1].__name__}, got {raised}")
        else:
            if raised is not None:
                raise Violation("get_value_dict", f"{where}: unexpected {raised.__name__} with error_behavior={beh}")
            if beh == "list" and errlist:
                if sorted(got.pop("__error__", [])) != sorted(errlist):
                    raise Violation("get_value_dict", f"{where}: __error__ list differs from {errlist}")
            if set(got) != set(expected):
                raise Violation("get_value_dict", f"{where}: keys {sorted(got)} != {sorted(expected)}")
            for name, m in expected.items():
                v = got[name]
                if m[0] == "err":
                    g = ("err", type(v))
                else:
                    g = ("ok", v.copy() if isinstance(v, np.ndarray) else v)
                if g[0] == "err" and m[0] == "err" and g[1] is not m[1] and g[1] in w.possible_errors(w.registry[name]):
                    w.labels.add("several_failing_inputs")
                    continue
                if not w.same(g, m):
                    idx = w.registry[name]
                    if w.fallback_taint & (w.descendants(idx) | {idx}):
                        raise Violation("read-value:below-fallback-with-failed-alternative", f"{where}: get_value_dict()[{name}] = {_fmt(g)} vs {_fmt(m)}")
                    raise Violation(f"read-value:{w.recs[idx].kind}", f"{where}: get_value_dict()[{name}] = {_fmt(g)} but from-scratch evaluation gives {_fmt(m)}")
            for name, idx in w.registry.items():
                if w.model_read(idx)[0] == "ok":
                    if idx in w.pending_nontrivial:
                        w.nontrivial = True
                    w.cached_since[idx] = True
                    for d in w.descendants(idx):
                        w.cached_since[d] = True
        w.labels.add("get_value_dict")
    else:
        raise RuntimeError(f"unknown op {k}")
    w.check_counters(before, where)
    return "ok"


def _structure(w):
    """children (by identity -> index) and parents of every real node, to prove 'graph unchanged'"""
    ident = {id(r.obj): r.idx for r in w.recs}
    out = []
    for r in w.recs:
        ch = [ident.get(id(c), "?") for c in r.obj.get_children()]
        pa = sorted(ident.get(id(p), "root") for p in r.obj.get_parents() if id(p) in ident)
        out.append((r.idx, tuple(ch), tuple(pa)))
    return out


def run(case):
    w = World()
    skipped = 0
    for op in case["ops"]:
        if apply_op(w, op) == "skip":
            skipped += 1
    # final sweep: every node, from the top (highest index first = parents before children, so caches are exercised)
    order = list(range(len(w.recs)))
    if case.get("final_order") == "desc":
        order.reverse()
    for idx in order:
        w.clock += 1
        before = w.counters()
        w.compare_read(idx, f"final read n{idx}")
        w.check_counters(before, f"final read n{idx}")
    # structural consistency between model and real graph (children lists)
    ident = {id(r.obj): r.idx for r in w.recs}
    for r in w.recs:
        real = [ident.get(id(c)) for c in r.obj.get_children()]
        if real != r.children:
            raise Violation("structure", f"children of n{r.idx} ({r.kind}) are {real}, model says {r.children}")
    kinds = {r.kind for r in w.recs}
    labels = set(w.labels)
    # diamond: some node reachable from another through two different children
    for r in w.recs:
        if len(r.children) >= 2:
            sets = [w.descendants(c) | {c} for c in r.children]
            if any(sets[i] & sets[j] for i in range(len(sets)) for j in range(i + 1, len(sets))):
                labels.add("diamond")
                break
    labels |= {f"kind_{k}" for k in kinds}
    if skipped:
        labels.add("has_skipped_op")
    return {"nontrivial": w.nontrivial, "labels": sorted(labels)}


# ---------------------------------------------------------------------------------------------------
# strategy

def strategy(tier):
    small = st.integers(-6, 6)
    ref = st.integers(0, 40)
    a_ref = st.fixed_dictionaries({"ref": ref})
    a_lit = st.fixed_dictionaries({"lit": small})
    a = st.one_of(a_ref, a_ref, a_ref, a_lit)
    nxflag = st.booleans()
    create = st.one_of(
        st.fixed_dictionaries({"op": st.just("param"), "v": small, "nx": nxflag}),
        st.fixed_dictionaries({"op": st.just("param"), "v": small, "nx": nxflag}),
        st.fixed_dictionaries({"op": st.just("func"), "f": st.integers(0, 4), "args": st.lists(a, min_size=1, max_size=3), "nx": nxflag}),
        st.fixed_dictionaries({"op": st.just("func"), "f": st.integers(0, 4), "args": st.lists(a, min_size=1, max_size=3), "nx": nxflag}),
        st.fixed_dictionaries({"op": st.just("cellfunc"), "cell": st.integers(0, 2)}),
        st.fixed_dictionaries({"op": st.just("tsum"), "arg": ref}),
        st.fixed_dictionaries({"op": st.just("binop"), "name": st.sampled_from(BINOPS), "a": a, "b": a}),
        st.fixed_dictionaries({"op": st.just("unop"), "name": st.sampled_from(UNOPS), "a": a_ref}),
        st.fixed_dictionaries({"op": st.just("alias"), "ref": ref, "nx": nxflag}),
        st.fixed_dictionaries({"op": st.just("tuple"), "elems": st.lists(a, min_size=1, max_size=3), "array": st.booleans()}),
        st.fixed_dictionaries({"op": st.just("fallback"), "alts": st.lists(ref, min_size=1, max_size=3)}),
        st.fixed_dictionaries({"op": st.just("sigfunc"), "f": st.integers(0, 4),
                               "pars": st.lists(st.fixed_dictionaries({"how": st.sampled_from(["existing", "existing", "default", "empty"]),
                                                                       "ref": ref, "default": st.integers(0, 5)}), min_size=1, max_size=3)}),
    )
    mutate = st.one_of(
        st.fixed_dictionaries({"op": st.just("assign"), "p": ref, "v": small, "used": st.sampled_from([True, True, True, False])}),
        st.fixed_dictionaries({"op": st.just("assign"), "p": ref, "v": small, "used": st.just(True)}),
        st.fixed_dictionaries({"op": st.just("assign"), "p": ref, "v": small, "used": st.just(True)}),
        st.fixed_dictionaries({"op": st.just("setcell"), "cell": st.integers(0, 2), "v": small}),
        st.fixed_dictionaries({"op": st.just("setfunc"), "n": ref, "f": st.integers(0, 4)}),
        st.fixed_dictionaries({"op": st.just("replace"), "a": ref, "b": ref}),
        st.fixed_dictionaries({"op": st.just("nxadd"), "name_of": ref,
                               "beh": st.sampled_from(["replace", "replace", "replace_if_empty", "replace_if_alias", "ignore", "fail"]),
                               "new": st.one_of(st.fixed_dictionaries({"kind": st.just("param"), "v": small}),
                                                st.fixed_dictionaries({"kind": st.just("func"), "f": st.integers(0, 2), "arg": ref}))}),
        st.fixed_dictionaries({"op": st.just("setitem"), "t": ref, "i": st.integers(0, 3), "x": a}),
        st.fixed_dictionaries({"op": st.just("adddep"), "n": ref, "d": ref, "via": st.sampled_from(["nexus", "child"])}),
        st.fixed_dictionaries({"op": st.just("freeze"), "n": ref}),
        st.fixed_dictionaries({"op": st.just("freeze_stale"), "n": ref}),
        st.fixed_dictionaries({"op": st.just("unfreeze"), "n": ref}),
        st.fixed_dictionaries({"op": st.just("unfreeze"), "n": ref}),
    )
    read = st.one_of(
        st.fixed_dictionaries({"op": st.just("read"), "n": ref, "top": st.just(True)}),
        st.fixed_dictionaries({"op": st.just("read"), "n": ref, "top": st.just(True)}),
        st.fixed_dictionaries({"op": st.just("read"), "n": ref, "top": st.booleans()}),
        st.fixed_dictionaries({"op": st.just("readall"), "beh": st.sampled_from(["fail", "none", "exception_as_value", "ignore", "list"])}),
    )
    n_ops = 30 if tier == "quick" else 60
    prefix = st.lists(create, min_size=3, max_size=8)
    body = st.lists(st.one_of(create, mutate, mutate, read, read, read), min_size=1, max_size=n_ops)
    return st.builds(lambda p, b, o: {"ops": p + b, "final_order": o}, prefix, body, st.sampled_from(["asc", "desc"]))


KNOWN = {
    # Fallback.update caches the value of a later alternative while the failed earlier alternative stays stale; a stale node
    # never notifies its parents again, so neither the Fallback nor its ancestors learn that the failed alternative's inputs changed.
    "KF-C04-1": lambda sub, case, v: v.facet == "read-value:below-fallback-with-failed-alternative",
}

SUBS = [
    Sub("graph", strategy, run, quick=12000, thorough=400000,
        about="op-list histories on Nexus/nodes vs from-scratch reference interpreter + recomputation oracle on call counters"),
]


def extra(tier, seed):
    """thorough tier: coverage-guided campaign (atheris / libFuzzer) over the same strategy and oracle, see kverif/fuzz.py"""
    from ..fuzz import thorough_extra

    return thorough_extra(PROPERTY, [("graph", 30000, 16)], tier, seed)
