"""C11 - a multi-fit is the sum of its parts, or the joint fit if errors are shared.

cost   MultiFits of 1-3 members (xy / indexed / hist, overlapping parameter names) without fitting: op-lists of set / fix / release on
       the multi-fit or on a member, optional shared sources (simple / matrix, absolute or data-relative, any admissible axis) on subsets
       of the Gaussian members; after every op: same-named parameters hold one value everywhere, multi.cost == sum of the member costs
       == sum of the reference costs (+ multi-level constraints); with shared sources multi.cost == joint chi2 + ln det + non-Gaussian
       members + constraints and multi.total_cov_mat == the joint covariance with the shared matrix in every block of the sharing members.
fit    after multi.do_fit(): a single-member multi-fit reproduces the member's own fit; every member reports values / errors /
       covariance / correlations of its own parameters as the sub-blocks (by name) of the multi-fit result.
"""
import numpy as np
from hypothesis import strategies as st
from scipy import linalg

from .. import fitspec as fs
from .. import strategies as S
from ..core import Discard, Violation, guard
from ..runner import Sub

PROPERTY = "C11"
RULE = ("member lists (1-3 fits, mixed types, overlapping parameter names incl. different parameter orders) x shared sources x op-lists; "
        "non-trivial = a parameter shared between members, or a shared source, or a member whose parameter order is not monotone in the "
        "combined order; distinct by case hash")
ASSUMPTIONS = [
    "member costs: numpy reference of C01; joint covariance assembled by the harness: block diagonal of the members' own sources plus the "
    "shared matrix in every (i, j) block of the sharing members (x blocks projected with each member's analytic slope)",
    "shared sources only between members of equal size; data-relative shared sources only between members with identical data (kafe2 "
    "documents both restrictions); shared x sources only for polynomial members of degree <= 2 (exact finite-difference slope)",
    "every member keeps an own absolute y source so that the joint covariance is positive definite (cond <= 1e6 else discarded)",
    "fit level: MINIMIZER tolerance 0.03 sigma / 2 % of sqrt(C_ii C_jj)",
]


def _member(draw, i, t, size=None, fams=("line", "quad", "const", "sincos", "expo")):
    if t == "xy":
        m = draw(S.xy_spec(families=list(fams), costs=("chi2",), n_sources=(1, 2), x_errors=False, model_sources=False, constraints=draw(st.booleans()), fixed=False,
                           permute_params=True, min_points=size or 0))
        if size and len(m["x"]) != size:
            m = None
    elif t == "indexed":
        m = draw(S.indexed_spec(costs=("chi2",), n_sources=(1, 2), model_sources=False, constraints=draw(st.booleans()), fixed=False))
        if size and m["n"] != size:
            m = None
    else:
        hcost = draw(st.sampled_from(["nll", "nll", "chi2"]))  # a chi2 histogram member keeps its own cost also when other members share a source
        m = draw(S.hist_spec(costs=(hcost,), n_sources=(0, 0) if hcost == "nll" else (1, 1), constraints=False, fixed=False, bin_evaluations=("antider",)))
    return m


@st.composite
def strat_cost(draw, tier="quick"):
    k = draw(st.integers(1, 3))
    members = []
    poly_only = draw(st.booleans())
    for i in range(k):
        t = draw(st.sampled_from(["xy", "xy", "xy", "indexed", "hist"]))
        m = _member(draw, i, t, fams=("line", "quad", "const") if poly_only else ("line", "quad", "const", "sincos", "expo"))
        for s in m["sources"]:
            s["name"] = f"m{i}{s['name']}"
            s["relative"] = False if s["ref"] == "data" and s["kind"] == "matrix" else s["relative"]
        # own absolute y source (keeps the joint covariance positive definite)
        if t != "hist":
            n = len(m["x"]) if t == "xy" else m["n"]
            m["sources"].insert(0, {"name": f"m{i}own", "ref": "data", "axis": "y" if t == "xy" else None, "kind": "simple", "scalar": True, "err": [m["sigma"]] * 8,
                                    "rho": 0.0, "relative": False, "enabled": True})
        members.append(m)
    # shared sources among Gaussian members of equal size
    gauss = [i for i, m in enumerate(members) if m["type"] != "hist"]
    shared = []
    if len(gauss) >= 2 and draw(st.booleans()):
        # make sizes equal by truncating to the smallest size
        sizes = [len(members[i]["x"]) if members[i]["type"] == "xy" else members[i]["n"] for i in gauss]
        n = min(sizes)
        for i in gauss:
            _truncate(members[i], n)
        for j in range(draw(st.integers(1, 2))):
            sub = draw(st.lists(st.sampled_from(gauss), min_size=2, max_size=len(gauss), unique=True))
            axis = "y"
            if all(members[i]["type"] == "xy" and members[i]["family"] in ("line", "quad", "const") for i in sub) and draw(st.booleans()):
                axis = "x"
            sc = min(members[i]["sigma"] for i in sub) if axis == "y" else 0.05
            s = draw(S.source(n, f"sh{j}", "data", axis, sc, allow_relative=False))
            s["enabled"] = True
            s["fits"] = sorted(sub)
            shared.append(s)
    allnames = []
    truth = {}
    for m in members:
        for nm in fs.par_names(m):
            if nm not in allnames:
                allnames.append(nm)
        for nm, v in m["truth"].items():
            truth.setdefault(nm, v)
    cons = draw(S.constraints_for(allnames, truth, max_n=1))
    ref = st.integers(0, 8)
    ops = draw(st.lists(st.one_of(
        st.fixed_dictionaries({"op": st.sampled_from(["set_multi", "set_member", "set_all_multi", "set_all_member"]), "i": ref, "m": ref, "d": st.lists(st.floats(-0.3, 0.3), min_size=4, max_size=4)}),
        st.fixed_dictionaries({"op": st.sampled_from(["fix_multi", "fix_member", "release_multi"]), "i": ref, "m": ref, "d": st.floats(-0.2, 0.2)}),
        st.fixed_dictionaries({"op": st.just("check")}),
    ), min_size=1, max_size=8))
    # members whose own sources and constraints are declared only *after* the MultiFit has been built from them (through the member fit)
    late = sorted(draw(st.sets(st.integers(0, k - 1), max_size=k))) if draw(st.integers(0, 2)) == 0 else []
    return {"members": members, "shared": shared, "constraints": cons, "ops": ops, "truth": truth, "names": allnames, "late": late, "omit_axis": draw(st.booleans())}


def _truncate(m, n):
    if m["type"] == "xy":
        m["x"], m["y"] = m["x"][:n], m["y"][:n]
    else:
        m["n"] = n
        m["data"] = m["data"][:n]
        m["n_par"] = min(m["n_par"], max(1, n - 1))
        m["truth"] = {k_: v for k_, v in m["truth"].items() if k_ in ["p", "q", "r"][: m["n_par"]]}
        m["start"] = {k_: v for k_, v in m["start"].items() if k_ in m["truth"]}
        m["constraints"] = [c for c in m["constraints"] if (c["kind"] == "simple" and c["par"] in m["truth"]) or (c["kind"] == "matrix" and all(p in m["truth"] for p in c["pars"]))]
        from .. import models

        m["data"] = [float(v) for v in models.indexed_function(n, m["n_par"], m.get("nonlinear", False))[2]([m["truth"][k_] for k_ in ["p", "q", "r"][: m["n_par"]]])
                     + 0.5 * m["sigma"] * np.resize([0.7, -0.4, 0.9, -1.1, 0.3, 0.6, -0.8, 0.2], n)]


def joint_reference(refs, members, shared, p):
    """returns (joint V over the Gaussian members, residual vector, list of gaussian member indices)"""
    # members with a chi2-type cost enter the joint covariance (a chi2 histogram fit as its own block), Poisson-likelihood members keep their own cost
    gauss = [i for i, m in enumerate(members) if m["type"] != "hist" or m["cost"] == "chi2"]
    sizes = [refs[i].n for i in gauss]
    off = np.concatenate([[0], np.cumsum(sizes)])
    N = int(off[-1])
    V = np.zeros((N, N))
    r = np.zeros(N)
    slopes = {}
    for a, i in enumerate(gauss):
        pi = {nm: p[nm] for nm in refs[i].names}
        V[off[a]:off[a + 1], off[a]:off[a + 1]] = refs[i].total_cov(pi)
        r[off[a]:off[a + 1]] = refs[i].d - refs[i].model(pi)
        slopes[i] = refs[i].slope(pi) if members[i]["type"] == "xy" else np.zeros(refs[i].n)
    for s in shared:
        n = sizes[gauss.index(s["fits"][0])]
        M = fs.source_cov(s, np.ones(n), n)
        for i in s["fits"]:
            for j in s["fits"]:
                a, b = gauss.index(i), gauss.index(j)
                blk = M if s["axis"] == "y" else M * np.outer(slopes[i], slopes[j])
                V[off[a]:off[a + 1], off[b]:off[b + 1]] += blk
    return V, r, gauss


def run_cost(case):
    kafe2 = fs.k("kafe2")
    members = case["members"]
    refs = [fs.Ref(m) for m in members]
    names = case["names"]
    truth = case["truth"]
    late = set(case.get("late", []))
    labels_pre = set()
    for m in members:
        m["defaults"] = None  # the harness' model of the initial values is "all 1.0": members are built with the float defaults (integer signature defaults are C05's / C06's subject)
    with guard("build-members"):
        fits = [fs.build(m, apply_params=False, apply_sources=(i not in late)) for i, m in enumerate(members)]
    with guard("MultiFit"):
        multi = kafe2.MultiFit(fits)
    if list(multi.parameter_names) != names:
        raise Violation("multi-parameter-names", f"{list(multi.parameter_names)} vs union in order of first appearance {names}")
    for i in sorted(late):
        with guard("member.add_error(after MultiFit)"):
            for s in members[i].get("sources", []):
                fs.add_source(fits[i], members[i], s)
            for con in members[i].get("constraints", []):
                fs.add_constraint(fits[i], con)
    for s in case["shared"]:
        n = refs[s["fits"][0]].n
        # members without an x axis (indexed fits) need no axis argument: every second such source is declared without one
        akw = {"axis": s["axis"]}
        if all(members[i]["type"] != "xy" for i in s["fits"]) and case.get("omit_axis"):
            akw = {}
            labels_pre.add("shared_source_declared_without_axis")
        with guard("multi.add_error(shared)"):
            if s["kind"] == "simple":
                err = float(s["err"][0]) if s.get("scalar") else np.asarray(s["err"][:n], float)
                multi.add_error(err, fits=list(s["fits"]), name=s["name"], correlation=s["rho"], **akw)
            else:
                R = np.asarray(s["R"], float)[:n, :n]
                e = np.asarray(s["e"], float)[:n]
                if s["form"] == "cor":
                    multi.add_matrix_error(R, "cor", fits=list(s["fits"]), name=s["name"], err_val=e, **akw)
                else:
                    multi.add_matrix_error(np.outer(e, e) * R, "cov", fits=list(s["fits"]), name=s["name"], **akw)
    for con in case["constraints"]:
        with guard("multi.add_parameter_constraint"):
            fs.add_constraint(multi, con)
    cref = fs.Ref({"type": "indexed", "n": 2, "n_par": 1, "data": [0, 0], "cost": "chi2", "sources": [], "constraints": case["constraints"]})
    cref.names = names
    vals = {nm: 1.0 for nm in names}
    fixed = set()
    labels = {f"members={len(members)}"} | labels_pre
    if late:
        labels.add("member_sources_declared_after_MultiFit")
    shared_par = len(names) < sum(len(r.names) for r in refs)
    nonmono = any([names.index(nm) for nm in r.names] != sorted(names.index(nm) for nm in r.names) for r in refs)

    def check(where):
        # (c) one common value everywhere
        with guard("parameter_values"):
            mv = dict(zip(names, np.asarray(multi.parameter_values, float)))
        for nm in names:
            if mv[nm] != vals[nm]:
                raise Violation("multi-value", f"{where}: multi-fit holds {nm}={mv[nm]!r}, expected {vals[nm]!r}")
        for k_, (f, r) in enumerate(zip(fits, refs)):
            with guard("member.parameter_values"):
                fv = dict(zip(r.names, np.asarray(f.parameter_values, float)))
            for nm in r.names:
                if fv[nm] != vals[nm]:
                    raise Violation("member-value-differs", f"{where}: member {k_} holds {nm}={fv[nm]!r}, the multi-fit {vals[nm]!r}")
        # PD?
        try:
            V, res, gauss = joint_reference(refs, members, case["shared"], vals)
            if len(gauss):
                ev = np.linalg.eigvalsh(V)
                if ev.min() <= 0 or ev.max() / ev.min() > 1e6:
                    raise Discard("joint covariance not positive definite / cond > 1e6")
        except np.linalg.LinAlgError:
            raise Discard("singular")
        with guard("cost_function_value"):
            mc = float(multi.cost_function_value)
            member_costs = [float(f.cost_function_value) for f in fits]
        con = cref.constraint_cost(vals)
        with np.errstate(all="ignore"):
            ref_costs = [r.cost({nm: vals[nm] for nm in r.names}) for r in refs]
        if not np.all(np.isfinite(ref_costs)):
            raise Discard("reference cost not finite")
        n_tot = sum(r.n for r in refs)
        if not case["shared"]:
            want = sum(ref_costs) + con
            if abs(mc - (sum(member_costs) + con)) > 1e-8 * (abs(mc) + n_tot):
                raise Violation("multi-cost-vs-members", f"{where}: multi cost {mc!r} vs sum of member costs {member_costs} + multi-level constraints {con!r}")
            if abs(mc - want) > 1e-7 * (abs(want) + n_tot):
                raise Violation("multi-cost-vs-reference", f"{where}: multi cost {mc!r} vs sum of reference member costs {ref_costs} + {con!r}")
        else:
            cf = linalg.cho_factor(V, lower=True)
            chi2 = float(res @ linalg.cho_solve(cf, res))
            logdet = 2.0 * float(np.sum(np.log(np.diag(cf[0]))))
            other = sum(c for i, c in enumerate(ref_costs) if i not in gauss)
            mcon = sum(refs[i].constraint_cost({nm: vals[nm] for nm in refs[i].names}) for i in gauss)
            want = chi2 + logdet + other + con + mcon
            if abs(mc - want) > 1e-7 * (abs(want) + n_tot) * max(1.0, np.linalg.cond(V) / 1e3):
                raise Violation("shared-cost", f"{where}: multi cost {mc!r} vs joint chi2 {chi2!r} + ln det {logdet!r} + non-Gaussian members {other!r} + constraints {con + mcon!r} = {want!r}; "
                                f"shared {[(s['name'], s['fits'], s['axis'], s['kind']) for s in case['shared']]}")
            with guard("total_cov_mat"):
                Vg = np.asarray(multi.total_cov_mat, float)
            # kafe2 concatenates all members in order; compare the Gaussian part
            if Vg.shape == V.shape:
                sc = float(np.max(np.abs(V)))
                if np.any(np.abs(Vg - V) > 1e-9 * sc + 1e-9 * np.abs(V)):
                    raise Violation("shared-total-cov", f"{where}: multi.total_cov_mat deviates from the joint covariance by {np.max(np.abs(Vg - V)):.3g} (max entry {sc:.3g})")

    check("initial")
    for i, op in enumerate(case["ops"]):
        k = op["op"]
        where = f"op {i} {k}"
        if k == "set_multi":
            nm = names[op["i"] % len(names)]
            if nm in fixed:
                continue
            v = truth[nm] * (1 + op["d"][0]) + 0.02 * op["d"][1]
            with guard("multi.set_parameter_values"):
                multi.set_parameter_values(**{nm: v})
            vals[nm] = v
        elif k == "set_all_multi":
            new = {nm: (vals[nm] if nm in fixed else truth[nm] * (1 + op["d"][j % 4]) + 0.02) for j, nm in enumerate(names)}
            with guard("multi.set_all_parameter_values"):
                multi.set_all_parameter_values([new[nm] for nm in names])
            vals.update(new)
        elif k == "set_member":
            mi = op["m"] % len(fits)
            nm = refs[mi].names[op["i"] % len(refs[mi].names)]
            if nm in fixed:
                continue
            v = truth[nm] * (1 + op["d"][2]) - 0.02 * op["d"][3]
            with guard("member.set_parameter_values"):
                fits[mi].set_parameter_values(**{nm: v})
            vals[nm] = v
            labels.add("set_on_member")
        elif k == "set_all_member":
            # all parameters of one member at once, through the member (parameters it shares with other members must follow everywhere)
            mi = op["m"] % len(fits)
            new = {nm: (vals[nm] if nm in fixed else truth[nm] * (1 + op["d"][j % 4]) - 0.03) for j, nm in enumerate(refs[mi].names)}
            with guard("member.set_all_parameter_values"):
                fits[mi].set_all_parameter_values([new[nm] for nm in refs[mi].names])
            vals.update(new)
            labels.add("set_all_on_member")
        elif k == "fix_multi":
            nm = names[op["i"] % len(names)]
            if nm in fixed or len(fixed) >= len(names) - 1:
                continue
            v = truth[nm] * (1 + op["d"])
            with guard("multi.fix_parameter"):
                multi.fix_parameter(nm, v)
            vals[nm] = v
            fixed.add(nm)
        elif k == "fix_member":
            continue  # fixing on a member is not mirrored into the multi-fit by design (documented: use the multi-fit)
        elif k == "release_multi":
            if not fixed:
                continue
            nm = sorted(fixed)[op["i"] % len(fixed)]
            with guard("multi.release_parameter"):
                multi.release_parameter(nm)
            fixed.discard(nm)
        check(where)
    if case["shared"]:
        labels.add("shared_source")
        if any(s["axis"] == "x" for s in case["shared"]):
            labels.add("shared_x_source")
    if shared_par:
        labels.add("shared_parameter")
    if nonmono:
        labels.add("non_monotone_parameter_order")
    return {"nontrivial": shared_par or bool(case["shared"]) or nonmono, "labels": sorted(labels)}


# ---------------------------------------------------------------------------------------------------

@st.composite
def strat_fit(draw, tier="quick"):
    k = draw(st.integers(1, 3))
    mini = draw(st.sampled_from(["iminuit", "iminuit", "scipy"]))
    members = []
    for i in range(k):
        t = draw(st.sampled_from(["xy", "xy", "indexed"]))
        m = _member(draw, i, t, fams=("line", "quad", "sincos", "expo", "const"))
        for s in m["sources"]:
            s["name"] = f"m{i}{s['name']}"
        m["sources"].insert(0, {"name": f"m{i}own", "ref": "data", "axis": "y" if t == "xy" else None, "kind": "simple", "scalar": True, "err": [m["sigma"]] * 8,
                                "rho": 0.0, "relative": False, "enabled": True})
        m["minimizer"] = mini
        members.append(m)
    truth = {}
    for m in members:
        for nm, v in m["truth"].items():
            truth.setdefault(nm, v)
    return {"members": members, "truth": truth, "minimizer": mini, "asym": draw(st.sampled_from([False, False, True])) and mini == "iminuit",
            # one parameter fixed through the multi-fit before fitting (optionally after the same value was set through a member); afterwards a member is fitted on its own
            "fix_via": draw(st.sampled_from([None, None, "multi", "member_then_multi"])), "fix_i": draw(st.integers(0, 5)), "member_fit": draw(st.booleans())}


def run_fit(case):
    from .. import models

    kafe2 = fs.k("kafe2")
    members = case["members"]
    truth = case["truth"]
    # data consistent with the common truth of shared parameters
    for m in members:
        if m["type"] == "xy":
            F = models.family(m["family"])
            x = np.asarray(m["x"], float)
            noise = np.asarray(m["y"], float) - F.f(x, [m["truth"][nm] for nm in F.params])
            m["y"] = [float(v) for v in F.f(x, [truth[nm] for nm in F.params]) + noise]
        else:
            f = models.indexed_function(m["n"], m["n_par"], m.get("nonlinear", False))[2]
            names_i = ["p", "q", "r"][: m["n_par"]]
            noise = np.asarray(m["data"], float) - f([m["truth"][nm] for nm in names_i])
            m["data"] = [float(v) for v in f([truth[nm] for nm in names_i]) + noise]
    refs = [fs.Ref(m) for m in members]
    names = []
    for r in refs:
        for nm in r.names:
            if nm not in names:
                names.append(nm)
    for r in refs:
        V = r.total_cov({nm: truth[nm] for nm in r.names})
        ev = np.linalg.eigvalsh(V)
        if ev.min() <= 0 or ev.max() / ev.min() > 1e6:
            raise Discard("member covariance not positive definite")
    start = {nm: truth[nm] * 1.05 for nm in names}
    with guard("build"):
        fits = [fs.build(m, apply_params=False) for m in members]
        multi = kafe2.MultiFit(fits, minimizer=case["minimizer"])
        multi.set_parameter_values(**start)
    fix_nm, fix_v = None, None
    if case.get("fix_via") and len(names) >= 2:
        fix_nm = names[case["fix_i"] % len(names)]
        fix_v = float(truth[fix_nm] * 1.1 + 0.05)
        with guard("fix"):
            if case["fix_via"] == "member_then_multi":
                holder = next(f for f, r in zip(fits, refs) if fix_nm in r.names)
                holder.set_parameter_values(**{fix_nm: fix_v})
            multi.fix_parameter(fix_nm, fix_v)
    try:
        multi.do_fit(asymmetric_parameter_errors=case["asym"])
    except Exception:
        raise Discard("do_fit failed (C05/C06's subject)")
    if fix_nm is not None:
        with guard("values after fit"):
            got_fixed = [float(np.asarray(multi.parameter_values, float)[names.index(fix_nm)])] + \
                [float(np.asarray(f.parameter_values, float)[r.names.index(fix_nm)]) for f, r in zip(fits, refs) if fix_nm in r.names]
        if any(v != fix_v for v in got_fixed):
            raise Violation("fixed-value-after-multi-fit", f"{fix_nm} fixed at {fix_v!r} through the multi-fit ({case['fix_via']}); after do_fit the multi-fit and its members hold {got_fixed}")
    with guard("multi results"):
        mv = np.asarray(multi.parameter_values, float)
        me = np.asarray(multi.parameter_errors, float)
        mC = np.asarray(multi.parameter_cov_mat, float)
        mR = np.asarray(multi.parameter_cor_mat, float)
        ma = multi.asymmetric_parameter_errors if case["asym"] else None
    free_mask = np.array([nm != fix_nm for nm in names])
    if not np.all(np.isfinite(me)) or np.any(me[free_mask] <= 0):
        raise Discard("no finite uncertainties")
    labels = {case["minimizer"], f"members={len(members)}"} | ({f"fixed_via_{case['fix_via']}"} if fix_nm else set())
    nonmono = False
    for k_, (f, r) in enumerate(zip(fits, refs)):
        idx = [names.index(nm) for nm in r.names]
        if idx != sorted(idx):
            nonmono = True
        with guard("member results"):
            fv = np.asarray(f.parameter_values, float)
            fe = np.asarray(f.parameter_errors, float)
            fC = np.asarray(f.parameter_cov_mat, float)
            fR = np.asarray(f.parameter_cor_mat, float)
        if np.any(fv != mv[idx]):
            raise Violation("member-values-after-fit", f"member {k_} {r.names}: values {fv.tolist()} vs multi-fit {mv[idx].tolist()}")
        if np.any(np.abs(fe - me[idx]) > 1e-9 * me[idx]):
            raise Violation("member-errors-after-fit", f"member {k_} {r.names}: errors {fe.tolist()} vs multi-fit sub-vector {me[idx].tolist()} (multi order {names})")
        if np.any(np.abs(fC - mC[np.ix_(idx, idx)]) > 1e-9 * np.outer(me[idx], me[idx])):
            raise Violation("member-cov-after-fit", f"member {k_} {r.names}: covariance {fC.tolist()} vs sub-block {mC[np.ix_(idx, idx)].tolist()}")
        if np.any(np.abs(fR - mR[np.ix_(idx, idx)]) > 1e-9):
            raise Violation("member-cor-after-fit", f"member {k_} {r.names}: correlations {fR.tolist()} vs sub-block {mR[np.ix_(idx, idx)].tolist()}")
        if ma is not None:
            with guard("member asymmetric errors"):
                fa = np.asarray(f.asymmetric_parameter_errors, float)
            if np.any(np.abs(fa - np.asarray(ma, float)[idx]) > 1e-9 * me[idx][:, None]):
                raise Violation("member-asymmetric-after-fit", f"member {k_} {r.names}: {fa.tolist()} vs {np.asarray(ma, float)[idx].tolist()}")
    # (d) a single-member multi-fit reproduces the member's own fit
    if len(members) == 1:
        with guard("single fit"):
            solo = fs.build(dict(members[0], start={nm: start[nm] for nm in refs[0].names}), apply_params=True)
            if fix_nm is not None:
                solo.fix_parameter(fix_nm, fix_v)
        try:
            solo.do_fit()
        except Exception:
            raise Discard("do_fit failed (C05/C06's subject)")
        sv = np.asarray(solo.parameter_values, float)
        se = np.asarray(solo.parameter_errors, float)
        if np.any(np.abs(sv - mv) > 0.03 * se) or np.any(np.abs(se - me) > 0.1 * se):
            raise Violation("single-member-multifit", f"multi-fit of one member: values {mv.tolist()} +- {me.tolist()}, the member on its own: {sv.tolist()} +- {se.tolist()}")
        if abs(float(solo.cost_function_value) - float(multi.cost_function_value)) > 1e-3:
            raise Violation("single-member-multifit-cost", f"{float(multi.cost_function_value)!r} vs {float(solo.cost_function_value)!r}")
        labels.add("single_member")
    if fix_nm is not None and case.get("member_fit"):
        # a member that holds the fixed parameter is fitted on its own: the parameter is fixed there too and keeps the value
        holder, hr = next((f, r) for f, r in zip(fits, refs) if fix_nm in r.names)
        try:
            holder.do_fit()
        except Exception:
            raise Discard("member do_fit failed (C05/C06's subject)")
        with guard("values after member fit"):
            hv = float(np.asarray(holder.parameter_values, float)[hr.names.index(fix_nm)])
            mv2 = float(np.asarray(multi.parameter_values, float)[names.index(fix_nm)])
        if hv != fix_v or mv2 != fix_v:
            raise Violation("fixed-value-after-member-fit", f"{fix_nm} fixed at {fix_v!r} through the multi-fit; after the member's own do_fit the member holds {hv!r}, the multi-fit {mv2!r}")
        labels.add("member_fitted_on_its_own")
    shared_par = len(names) < sum(len(r.names) for r in refs)
    if nonmono:
        labels.add("non_monotone_parameter_order")
    return {"nontrivial": shared_par or nonmono or len(members) == 1, "labels": sorted(labels)}


SUBS = [
    Sub("cost", lambda tier: strat_cost(tier), run_cost, quick=3200, thorough=60000, about="multi cost = sum of members / joint fit with shared sources; common parameter values after every op"),
    Sub("fit", lambda tier: strat_fit(tier), run_fit, quick=1200, thorough=20000, about="members report sub-blocks after multi.do_fit(); single-member multi-fit == member"),
]
