"""C08 - inspecting results never moves the fit.

A case = a fitted problem (linear / well-posed nonlinear xy, indexed, histogram; optional fixed and limited parameters, constraints;
iminuit or scipy) + an op-list with repetition over the public post-fit queries.  After every query the invariant is checked against
the snapshot taken directly after do_fit (not against the previous step: no cumulative drift).
"""
import io
import os

import numpy as np
from hypothesis import strategies as st

from .. import fitspec as fs
from .. import strategies as S
from ..core import Discard, Violation, guard
from ..runner import Sub

PROPERTY = "C08"
RULE = ("fitted problems x backends x op-lists (with repetition) over covariance / correlation / Hessian / asymmetric errors / profiles "
        "(sigma, cl, low, high) / contours / error band / report / result dict / plot / to_file / save_state; non-trivial = the history "
        "contains >= 2 excursion-type queries (profile, contour, asymmetric errors) and a fixed or limited parameter, or the same excursion "
        "twice; distinct by case hash")
ASSUMPTIONS = [
    "invariant against the snapshot after do_fit: |dp| <= 0.05 sigma (= 1e-3 in cost, the minimizer tolerance), |dcost| <= 1e-2, |dsigma|/sigma <= 0.02 (0.05 scipy), did_fit exact, minimizer "
    "parameter values == graph parameter values (1e-9 relative), cost_function_value == reference cost at the held parameter values",
    "a query that raises (C07's subject for the scipy backend) must still leave the state unchanged",
    "same question twice: values within 0.02 sigma / 2 % (matrices: 2 % of sqrt(C_ii C_jj)); profiles and contours compared point-wise at 1e-2",
    "scipy heuristic-grid contours (seconds each) inside generated histories only in the thorough tier; the scipy-only algorithm='beacon' contour (20-60 s each) has "
    "its own sub-check 'beacon' with three generated histories per quick run (seeded change C08-g was caught in the thorough tier only before)",
]

QUERIES = ["cov", "cor", "hessian", "hessian_inv", "asym", "profile_sigma", "profile_cl", "profile_lowhigh", "profile_mix", "contour", "contour_beacon", "band", "report", "report_asym",
           "result_dict", "result_dict_asym", "plot", "to_file", "save_state", "errors", "values", "gof"]
EXCURSIONS = {"asym", "profile_sigma", "profile_cl", "profile_lowhigh", "profile_mix", "contour", "contour_beacon", "report_asym", "result_dict_asym"}


@st.composite
def strat(draw, tier="quick"):
    mini = draw(st.sampled_from(["iminuit", "iminuit", "scipy"]))
    kind = draw(st.sampled_from(["linear", "nonlinear", "nonlinear", "hist", "indexed"]))
    if kind == "linear":
        spec = draw(S.xy_spec(families=["line", "quad", "sincos", "expbase"], costs=("chi2",), n_sources=(1, 3), x_errors=False, model_sources=False, limits=True,
                              minimizers=(mini,)))
    elif kind == "nonlinear":
        spec = draw(S.xy_spec(families=["expo", "power", "gauss", "logistic", "lorentz"], costs=("chi2",), n_sources=(1, 3), x_errors=True, model_sources=True,
                              constraints=draw(st.booleans()), limits=True, min_points=7, model_only_first=0.0, noise_scale=0.7, minimizers=(mini,), sigma_rel=(0.004, 0.04)))
        if not any(s["ref"] == "data" and (s.get("axis") or "y") == "y" and not s["relative"] and s.get("enabled", True) and s.get("rho", 0) < 1 for s in spec["sources"]):
            spec["sources"].insert(0, {"name": "base", "ref": "data", "axis": "y", "kind": "simple", "scalar": True, "err": [spec["sigma"]] * 8, "rho": 0.0,
                                       "relative": False, "enabled": True})
    elif kind == "hist":
        spec = draw(S.hist_spec(costs=("nll",), densities=("normal", "expon"), bin_evaluations=("antider",), n_entries=(60, 200), minimizers=(mini,)))
    else:
        spec = draw(S.indexed_spec(costs=("chi2",), n_sources=(1, 2), nonlinear=True, minimizers=(mini,), model_sources=False))
    vals = np.abs(fs.Ref(spec).model(spec["truth"]))
    if vals.min() < 0.25 * vals.max():
        for s_ in spec["sources"]:
            if s_["relative"] and (s_.get("axis") or "y") == "y":
                s_["relative"] = False
                key = "err" if s_["kind"] == "simple" else "e"
                s_[key] = [v * float(vals.max()) for v in s_[key]]
    # scipy contours take seconds (heuristic grid) to a minute (algorithm='beacon'): thorough tier only; the beacon algorithm exists for the scipy backend only
    allowed = [q for q in QUERIES if not (mini == "scipy" and q == "contour" and tier == "quick") and not (q == "contour_beacon" and (mini != "scipy" or tier == "quick"))]
    allowed = allowed + [q for q in allowed if q in EXCURSIONS] * 2  # excursion-type queries are the interesting ones
    ops = draw(st.lists(st.fixed_dictionaries({"q": st.sampled_from(allowed), "par": st.integers(0, 3), "k": st.floats(0.5, 2.5), "cl": st.sampled_from([0.6827, 0.9, 0.95]),
                                                  # profile_mix: any combination of an explicit lower / upper end with a sigma or confidence level for the other end(s)
                                                  "mix": st.sampled_from(["low", "high", "low+cl", "high+cl", "low+sigma", "high+sigma", "low+high+cl"])}),
                        min_size=2, max_size=7 if tier == "quick" else 14))
    return {"spec": spec, "ops": ops}


@st.composite
def strat_beacon(draw, tier="quick"):
    # the scipy-only algorithm='beacon' contour followed by cheap read-backs and one more excursion: short linear fits keep one contour at ~20 s
    spec = draw(S.xy_spec(families=["line", "expbase"], costs=("chi2",), n_sources=(1, 2), x_errors=False, model_sources=False, fixed=False, constraints=False,
                          limits=draw(st.booleans()), minimizers=("scipy",)))
    op = {"par": draw(st.integers(0, 1)), "k": draw(st.floats(0.5, 2.5)), "cl": 0.6827, "mix": "low+cl"}
    tail = draw(st.lists(st.sampled_from(["cov", "values", "gof", "report", "asym", "profile_sigma", "result_dict"]), min_size=1, max_size=3))
    return {"spec": spec, "ops": [dict(op, q="contour_beacon")] + [dict(op, q=q) for q in tail]}


def _snapshot(fit):
    return {"p": np.asarray(fit.parameter_values, float).copy(), "cost": float(fit.cost_function_value), "e": np.asarray(fit.parameter_errors, float).copy(),
            "did_fit": bool(fit.did_fit)}


def _check_invariant(fit, snap, ref, names, free, tag, after_exception=False):
    with guard("read-state"):
        p = np.asarray(fit.parameter_values, float)
        c = float(fit.cost_function_value)
        e = np.asarray(fit.parameter_errors, float)
        d = bool(fit.did_fit)
        pm = np.asarray(fit._fitter.minimizer.parameter_values, float)
    sd = np.where(snap["e"] > 0, snap["e"], 1.0)
    suffix = ":after-exception" if after_exception else ""
    fidx = [names.index(nm) for nm in free]
    # "unchanged up to the minimizer tolerance": a minimiser that stops within 1e-3 in cost of the minimum is within 0.045 sigma of it
    if np.any(np.abs(p - snap["p"])[fidx] > 0.05 * sd[fidx]) or np.any(p[[i for i in range(len(names)) if i not in fidx]] != snap["p"][[i for i in range(len(names)) if i not in fidx]]):
        # bug model of KF-C08-1: do_fit itself stopped above the minimum (KF-C06-1) and the query's re-minimisation found the better point
        lower = ":to-lower-cost" if c < snap["cost"] - 1e-3 and np.all(p[[i for i in range(len(names)) if i not in fidx]] == snap["p"][[i for i in range(len(names)) if i not in fidx]]) else ""
        raise Violation(f"values-moved{lower}{suffix}", f"{tag}: parameter values {snap['p'].tolist()} -> {p.tolist()} (sigma {snap['e'].tolist()}); cost {snap['cost']!r} -> {c!r}")
    if abs(c - snap["cost"]) > 1e-2:
        raise Violation(f"cost-moved{suffix}", f"{tag}: cost {snap['cost']!r} -> {c!r}")
    # scipy backend: the covariance is recomputed with numdifftools at the (within the minimizer tolerance) restored point; its step-size noise is a few per cent
    # (root cause of KF-C07-3)
    etol = 0.05 if type(fit._fitter.minimizer).__name__ == "MinimizerScipyOptimize" else 0.02
    if np.any(np.abs(e - snap["e"])[fidx] > etol * sd[fidx]):
        raise Violation(f"errors-moved{suffix}", f"{tag}: parameter errors {snap['e'].tolist()} -> {e.tolist()}")
    if d != snap["did_fit"]:
        raise Violation(f"did_fit-changed{suffix}", f"{tag}: did_fit {snap['did_fit']} -> {d}")
    if np.any(np.abs(pm - p) > 1e-9 * (np.abs(p) + np.abs(pm)) + 1e-12):
        raise Violation(f"minimizer-vs-graph{suffix}", f"{tag}: minimizer holds {pm.tolist()}, the graph (model evaluation) holds {p.tolist()}")
    # the cost reported is the cost at the parameter values the fit says it holds
    pd = dict(zip(names, p))
    try:
        want = ref.cost(pd)
        tol = 2e-3 + 1e-6 * abs(want) + ref.slope_tolerance(pd, lambda: ref.cost(pd))
    except np.linalg.LinAlgError:
        return
    if np.isfinite(want) and np.isfinite(tol) and abs(c - want) > tol:
        raise Violation(f"cost-not-at-held-parameters{suffix}", f"{tag}: cost_function_value {c!r}, reference cost at the held parameter values {want!r}")


def _same(a, b, scale, rel=0.02):
    a = np.asarray(a, float)
    b = np.asarray(b, float)
    if a.shape != b.shape:
        return False
    return bool(np.all(np.abs(a - b) <= rel * scale + 1e-300) | False) if np.ndim(scale) else bool(np.all(np.abs(a - b) <= rel * scale + 1e-300))


def run(case):
    spec = dict(case["spec"])
    tb = spec["truth"]
    ref = fs.Ref(spec)
    names = ref.names
    spec["start"] = {nm: tb[nm] + (v - tb[nm]) * (0.15 if nm in ("w", "k") else 0.5) for nm, v in spec["start"].items()}
    fixed_vals = {nm: (v if v is not None else spec["start"].get(nm, tb[nm])) for nm, v in spec.get("fixed", {}).items()}
    free = [nm for nm in names if nm not in fixed_vals]
    if not free:
        raise Discard("no free parameter")
    backend = spec["minimizer"]
    kafe2 = fs.k("kafe2")
    if ref.x_errors_too_large(tb):
        raise Discard("x uncertainties exceed half the spacing of the points (jagged cost surface; not well-posed)")
    if ref.t in ("xy", "indexed") and spec.get("sources"):
        V0 = ref.total_cov(dict(spec["start"], **fixed_vals))
        ev0 = np.linalg.eigvalsh(V0)
        if not np.all(np.isfinite(ev0)) or ev0.min() <= 0 or ev0.max() / ev0.min() > 1e8:
            raise Discard("total covariance matrix singular / cond > 1e8 (ill-posed; e.g. a single fully correlated source)")
    with guard(f"build[{spec['type']}]"):
        fit = fs.build(spec)
    try:
        fit.do_fit()
    except Exception:
        raise Discard("do_fit failed (convergence is the subject of C05/C06)")
    snap = _snapshot(fit)
    if not np.all(np.isfinite(snap["e"])) or np.any(snap["e"][[names.index(nm) for nm in free]] <= 0):
        raise Discard("fit did not produce finite uncertainties")
    # at a limit?  (excluded: uncertainties are not defined there)
    for nm, (lo, hi) in spec.get("limits", {}).items():
        i = names.index(nm)
        if nm in free and (snap["p"][i] - lo < 2 * snap["e"][i] or hi - snap["p"][i] < 2 * snap["e"][i]):
            raise Discard("optimum within 2 sigma of a limit")
    labels = {backend, spec["type"]}
    last = {}
    n_exc = 0
    same_exc_twice = False
    seen_exc = set()
    sdfull = np.where(snap["e"] > 0, snap["e"], 1.0)
    cscale = np.sqrt(np.outer(sdfull, sdfull)) ** 2
    for i, op in enumerate(case["ops"]):
        q = op["q"]
        par = free[op["par"] % len(free)]
        pi = names.index(par)
        key = (q, par if q.startswith("profile") else None)
        tag = f"op {i} {q}({par})" if q.startswith("profile") else f"op {i} {q}"
        res = None
        raised = False
        try:
            if q == "cov":
                res = np.asarray(fit.parameter_cov_mat, float)
            elif q == "cor":
                res = np.asarray(fit.parameter_cor_mat, float)
            elif q == "hessian":
                res = np.asarray(fit._fitter.minimizer.hessian, float)
            elif q == "hessian_inv":
                res = np.asarray(fit._fitter.minimizer.hessian_inv, float)
            elif q == "asym":
                r_ = fit.asymmetric_parameter_errors
                res = None if r_ is None else np.asarray(r_, float)
            elif q in ("profile_sigma", "profile_cl", "profile_lowhigh", "profile_mix"):
                cpf = kafe2.ContoursProfiler(fit, profile_points=5, profile_subtract_min=bool(i % 2))
                if q == "profile_sigma":
                    res = np.asarray(cpf.get_profile(par, sigma=op["k"]), float)
                elif q == "profile_cl":
                    res = np.asarray(cpf.get_profile(par, cl=op["cl"]), float)
                elif q == "profile_mix":
                    mix = op.get("mix", "low+cl").split("+")
                    kw = {}
                    if "low" in mix:
                        kw["low"] = snap["p"][pi] - op["k"] * snap["e"][pi]
                    if "high" in mix:
                        kw["high"] = snap["p"][pi] + 0.5 * op["k"] * snap["e"][pi]
                    if "cl" in mix:
                        kw["cl"] = op["cl"]
                    if "sigma" in mix:
                        kw["sigma"] = op["k"]
                    labels.add("profile_mix:" + op.get("mix", "low+cl"))
                    res = np.asarray(cpf.get_profile(par, **kw), float)
                else:
                    res = np.asarray(cpf.get_profile(par, low=snap["p"][pi] - op["k"] * snap["e"][pi], high=snap["p"][pi] + 0.5 * op["k"] * snap["e"][pi]), float)
                key = (q, par, bool(i % 2), round(op["k"], 6), op["cl"], op.get("mix") if q == "profile_mix" else None)
            elif q == "contour_beacon":
                if len(free) < 2 or backend != "scipy":
                    continue
                other = free[(op["par"] + 1) % len(free)]
                if other == par:
                    continue
                cont = fit._fitter.contour(par, other, sigma=1.0, algorithm="beacon")
                res = None
                key = (q, par, other)
                labels.add("scipy_contour_beacon")
            elif q == "contour":
                if len(free) < 2:
                    continue
                other = free[(op["par"] + 1) % len(free)]
                if other == par:
                    continue
                cont = fit._fitter.contour(par, other, sigma=1.0, **({"numpoints": 8} if backend == "iminuit" else {"initial_points": 1, "iterations": 2}))
                res = None if cont is None or cont.xy_points is None else np.asarray(cont.xy_points, float)
                key = (q, par, other)
            elif q == "band":
                if spec["type"] != "xy":
                    continue
                res = np.asarray(fit.error_band(np.array([0.5, 2.0, 5.0])), float)
            elif q in ("report", "report_asym"):
                buf = io.StringIO()
                fit.report(buf, asymmetric_parameter_errors=(q == "report_asym"))
                res = None
            elif q in ("result_dict", "result_dict_asym"):
                rd = fit.get_result_dict(asymmetric_parameter_errors=(q == "result_dict_asym"))
                res = np.asarray(list(rd["parameter_values"].values()), float)
            elif q == "plot":
                import matplotlib.pyplot as plt

                pl = kafe2.Plot(fit)
                pl.plot()
                plt.close("all")
            elif q == "to_file":
                fit.to_file("c08_fit.yml")
            elif q == "save_state":
                fit.save_state("c08_state.yml")
            elif q == "errors":
                res = np.asarray(fit.parameter_errors, float)
            elif q == "values":
                res = np.asarray(fit.parameter_values, float)
            elif q == "gof":
                res = np.asarray([fit.goodness_of_fit, fit.ndf], float) if fit.goodness_of_fit is not None else None
        except (Violation, Discard):
            raise
        except Exception as e:  # a failing query is C07's subject; here only the state afterwards matters
            raised = True
            labels.add(f"query_raised:{q}:{type(e).__name__}")
        _check_invariant(fit, snap, ref, names, free, tag, after_exception=raised)
        if q in EXCURSIONS:
            n_exc += 1
            if key in seen_exc:
                same_exc_twice = True
            seen_exc.add(key)
        # idempotence
        if res is not None and not raised and np.all(np.isfinite(res)):
            if key in last and last[key].shape == res.shape:
                prev = last[key]
                if q in ("cov", "hessian_inv"):
                    ok = np.all(np.abs(prev - res) <= 0.02 * cscale + 1e-300)
                elif q == "hessian":
                    hs = np.sqrt(np.outer(np.abs(np.diag(prev)), np.abs(np.diag(prev)))) + 1e-300
                    ok = np.all(np.abs(prev - res) <= 0.02 * hs)
                elif q == "cor":
                    ok = np.all(np.abs(prev - res) <= 0.02)
                elif q == "asym":
                    ok = np.all(np.abs(prev - res) <= 0.03 * sdfull[:, None] + 1e-300)
                elif q.startswith("profile"):
                    ok = np.all(np.abs(prev[0] - res[0]) <= 0.02 * snap["e"][pi]) and np.all(np.abs(prev[1] - res[1]) <= 2e-2 + 2e-2 * np.abs(prev[1] - np.min(prev[1])))
                elif q == "contour":
                    ok = True  # point sets are compared through C07's level check
                elif q in ("errors", "values", "result_dict"):
                    ok = np.all(np.abs(prev - res) <= 0.02 * sdfull)
                else:
                    ok = np.all(np.abs(prev - res) <= 0.02 * (np.abs(prev) + 1e-12))
                if not ok:
                    raise Violation(f"same-question-different-answer[{q}:{backend}]", f"{tag}: first {prev.tolist()}, now {res.tolist()}")
                labels.add("idempotence_checked")
            last[key] = res
    if fixed_vals:
        labels.add("fixed")
    if spec.get("limits"):
        labels.add("limited")
    for f_ in ("c08_fit.yml", "c08_state.yml"):
        if os.path.exists(f_):
            os.remove(f_)
    nontrivial = (n_exc >= 2 and (bool(fixed_vals) or bool(spec.get("limits")))) or same_exc_twice
    return {"nontrivial": nontrivial, "labels": sorted(labels)}


# The scipy backend's generic asymmetric-error search (KF-C07-1) can also leave the fit at an excursion point when an inner step raises.
KNOWN = {
    # consequence of KF-C06-1 (scipy backend + a parameter limit: L-BFGS-B stops above the minimum): a later query that re-minimises (asymmetric errors, profile,
    # contour) lands on the better point and leaves the fit there.  Signature: scipy AND limits AND the move went to a cost lower by more than 1e-3
    "KF-C08-1": lambda sub, case, v: case["spec"].get("minimizer") == "scipy" and bool(case["spec"].get("limits")) and v.facet.startswith("values-moved:to-lower-cost"),
}

SUBS = [
    Sub("queries", lambda tier: strat(tier), run, quick=640, thorough=8000, about="post-fit query histories with state invariant against the post-fit snapshot"),
    Sub("beacon", lambda tier: strat_beacon(tier), run, quick=3, thorough=24, about="scipy algorithm='beacon' contour first, then read-backs / excursions, same state invariant"),
]
