"""C09 - saving and reloading any object reproduces it.

containers   4 container kinds (histogram both filled and set_bins with underflow != overflow) with labels and source mixes (simple / matrix,
             absolute / relative, disabled, nearly-constant vectors): to_file -> from_file (base class and own class) -> observational equivalence;
             second cycle identical; write A, write shorter B to the same path, read -> B.
models       4 parametric models (with model-function source text, permuted parameter order, defaults != 1, model-referenced sources incl. disabled / relative /
             matrix) and their model functions on their own: observables incl. evaluation at a second parameter vector, second cycle.
named        xy fits whose model function is given by a library name ('linear_model', 'exp', ...) or by a SymPy definition string.
custom       custom fits (cost function source text) with explicitly set parameter values, fixed / limited / constrained parameters, fitted or not.
constraints  simple and matrix constraints in absolute / relative and cov / cor form with values != 1: cost at random points before / after.
fits         fits of the serialisable types (xy, indexed, histogram, unbinned), fitted or not, with / without asymmetric errors, with disabled /
             relative / matrix / model-referenced sources, fixed / limited / constrained parameters: reloaded fit has the same data, total
             covariance, cost at 3 parameter points, parameter values, fixed / limited parameters, stored results, and the same refit result.
corpus       every *.yml shipped in /repo/examples and the test-*.yml at the repository root: load, save, reload, compare.
"""
import glob
import importlib
import os

import numpy as np
from hypothesis import strategies as st

from .. import fitspec as fs
from .. import strategies as S
from ..core import REPO, Discard, Violation, guard
from ..runner import Sub

PROPERTY = "C09"
RULE = ("generated objects of every kind written and read back; non-trivial = the object carries at least one of {disabled source, relative "
        "source, matrix source, model-referenced source, constraint, fixed / limited parameter, under/overflow, fit results}; distinct by case hash")
ASSUMPTIONS = [
    "observational equivalence at rounding precision 1e-12 relative (Python float repr and numpy arrays round-trip exactly through YAML)",
    "model functions are written as source text with numpy referenced as 'np' (the reader re-executes sources with only np / scipy in scope)",
    "refit after reload compared at MINIMIZER tolerance (0.03 sigma)",
    "the dynamic-error algorithm and the minimizer keyword arguments are not part of the property's list of reproduced items; fits are "
    "generated with the default algorithm",
]


_TMP = []


def _path(name):
    """scratch file in a per-process temporary directory (removed at exit)"""
    if not _TMP:
        import atexit
        import shutil
        import tempfile

        _TMP.append(tempfile.mkdtemp(prefix="kverif-c09-"))
        atexit.register(shutil.rmtree, _TMP[0], True)
    return os.path.join(_TMP[0], name)


def _valid_result(fit):
    """the minimizer produced a usable result (finite cost, finite covariance matrix and errors); anything else is an ill-posed problem"""
    if fit.parameter_cov_mat is None or not np.isfinite(fit.cost_function_value):
        return False
    return bool(np.all(np.isfinite(np.asarray(fit.parameter_cov_mat, float))) and np.all(np.isfinite(np.asarray(fit.parameter_errors, float))))


def _k(name):
    import kafe2  # noqa

    return importlib.import_module(name)


def _eq(a, b, rel=1e-12):
    if a is None or b is None:
        return a is None and b is None
    a, b = np.asarray(a, float), np.asarray(b, float)
    if a.shape != b.shape:
        return False
    sc = max(float(np.max(np.abs(a))) if a.size else 0.0, float(np.max(np.abs(b))) if b.size else 0.0)
    return bool(np.all((np.abs(a - b) <= rel * (np.abs(a) + np.abs(b)) + rel * sc) | (np.isnan(a) & np.isnan(b))))


# ---------------------------------------------------------------------------------------------------
# containers

@st.composite
def strat_containers(draw, tier="quick"):
    kind = draw(st.sampled_from(["indexed", "xy", "hist_filled", "hist_set_bins", "unbinned"]))
    n = draw(st.integers(2, 6))
    srcs = []
    if kind != "unbinned":
        unit = draw(st.sampled_from([1.0, 1.0, 1.0, 1e-6, 1e-10, 1e4]))  # uncertainties in a small / large unit (what is written must not depend on it)
        for i in range(draw(st.integers(0, 3))):
            s = draw(S.source(n, f"s{i}", "data", draw(st.sampled_from(["x", "y"])) if kind == "xy" else None, 0.3 * unit))
            if s["kind"] == "simple" and not s.get("scalar") and draw(st.booleans()):
                # nearly constant vector: must not be collapsed into a scalar
                base = s["err"][0]
                s["err"] = [base * (1 + 1e-7 * (j + 1)) for j in range(len(s["err"]))]
                s["nearly_constant"] = True
            srcs.append(s)
        if srcs and draw(st.integers(0, 3)) == 0:
            for s in srcs:  # every source switched off: they are still sources of the container
                s["enabled"] = False
    return {"kind": kind, "n": n, "values": draw(st.lists(st.floats(0.5, 20), min_size=n, max_size=n)), "values2": draw(st.lists(st.floats(-20, 20), min_size=n, max_size=n)),
            "sources": srcs, "label": draw(st.one_of(st.none(), st.sampled_from(["my data", "Messung 1"]))), "x_label": draw(st.one_of(st.none(), st.just("t [s]"))),
            "y_label": draw(st.one_of(st.none(), st.just("U [V]"))), "under": draw(st.integers(0, 5)), "over": draw(st.integers(0, 5)),
            "entries": draw(st.lists(st.floats(-1, 7), min_size=0, max_size=12)), "second": draw(st.booleans())}


def _build_container(case, shorter=False):
    kafe2 = _k("kafe2")
    k = case["kind"]
    n = case["n"] - (1 if shorter and case["n"] > 2 else 0)
    v = [float(x) for x in case["values"][:n]]
    v2 = [float(x) for x in case["values2"][:n]]
    if k == "indexed":
        c = kafe2.IndexedContainer(v2)
    elif k == "unbinned":
        c = kafe2.UnbinnedContainer(v2)
    elif k == "xy":
        c = kafe2.XYContainer(np.cumsum(v), v2)
    elif k == "hist_filled":
        c = kafe2.HistContainer(n_bins=n, bin_range=(0.0, 6.0), fill_data=[float(e) for e in case["entries"]])
    else:
        c = kafe2.HistContainer(n_bins=n, bin_range=(0.0, 6.0))
        c.set_bins([float(int(abs(x))) for x in v], underflow=case["under"], overflow=case["over"])
    if not shorter:
        for s in case["sources"]:
            pre = (s["axis"],) if k == "xy" else ()
            kw = dict(name=s["name"], relative=bool(s["relative"]))
            if s["kind"] == "simple":
                err = float(s["err"][0]) if s.get("scalar") else np.asarray(s["err"][:n], float)
                c.add_error(*pre, err, correlation=s["rho"], **kw)
            else:
                R = np.asarray(s["R"], float)[:n, :n]
                e = np.asarray(s["e"], float)[:n]
                if s["form"] == "cor":
                    c.add_matrix_error(*pre, R, "cor", err_val=e, **kw)
                else:
                    c.add_matrix_error(*pre, np.outer(e, e) * R, "cov", **kw)
            if not s.get("enabled", True):
                c.disable_error(s["name"])
    if case["label"]:
        c.label = case["label"]
    if case["x_label"]:
        c.x_label = case["x_label"]
    if case["y_label"]:
        c.y_label = case["y_label"]
    return c


def _container_observables(c, kind):
    out = {"data": np.asarray(c.data, float), "label": c.label, "axis_labels": tuple(c.axis_labels), "size": c.size}
    if kind == "xy":
        out["x_cov"], out["y_cov"] = np.asarray(c.x_cov_mat, float), np.asarray(c.y_cov_mat, float)
    elif kind != "unbinned":
        out["cov"] = np.asarray(c.cov_mat, float)
    if kind.startswith("hist"):
        out["under"], out["over"], out["edges"], out["n_entries"] = float(c.underflow), float(c.overflow), np.asarray(c.bin_edges, float), float(c.n_entries)
        if kind == "hist_filled":
            out["raw"] = np.sort(np.asarray(c.raw_data, float))
    if kind != "unbinned":
        errs = c.get_matching_errors()
        out["sources"] = sorted((nm, bool(c.get_error(nm)["enabled"]), bool(e.relative), type(e).__name__) for nm, e in errs.items())
    return out


def _compare_obs(tag, a, b):
    for key in a:
        x, y = a[key], b.get(key)
        if isinstance(x, np.ndarray):
            if not _eq(x, y):
                raise Violation(f"{tag}:{key}", f"original {np.asarray(x).tolist()} reloaded {None if y is None else np.asarray(y).tolist()}")
        elif isinstance(x, float):
            if not _eq(x, y):
                raise Violation(f"{tag}:{key}", f"original {x!r} reloaded {y!r}")
        elif x != y:
            raise Violation(f"{tag}:{key}", f"original {x!r} reloaded {y!r}")


def run_containers(case):
    kafe2 = _k("kafe2")
    kind = case["kind"]
    c = _build_container(case)
    cls = type(c)
    base = _k("kafe2.fit._base").DataContainerBase
    path = _path("c09_container.yml")
    if os.path.exists(path):
        os.remove(path)
    obs0 = _container_observables(c, kind)
    with guard(f"to_file[{kind}]"):
        c.to_file(path)
    with guard(f"from_file[{kind}:own-class]"):
        r1 = cls.from_file(path)
    with guard(f"from_file[{kind}:base-class]"):
        r0 = base.from_file(path)
    if type(r1) is not cls or type(r0) is not cls:
        raise Violation(f"container[{kind}]:class", f"{type(r1).__name__} / {type(r0).__name__} instead of {cls.__name__}")
    _compare_obs(f"container[{kind}]", obs0, _container_observables(r1, kind))
    # second cycle
    with guard("to_file(second cycle)"):
        r1.to_file(_path("c09_container2.yml"))
        r2 = cls.from_file(_path("c09_container2.yml"))
    _compare_obs(f"container[{kind}]:second-cycle", _container_observables(r1, kind), _container_observables(r2, kind))
    # write-write-read on one path
    if case["second"]:
        b = _build_container(case, shorter=True)
        with guard("to_file(overwrite)"):
            b.to_file(path)
            rb = cls.from_file(path)
        _compare_obs(f"container[{kind}]:overwrite", _container_observables(b, kind), _container_observables(rb, kind))
        import yaml

        with open(path) as fh:
            docs = list(yaml.load_all(fh, Loader=_k("kafe2.fit.representation.error.common_error_tools").MatrixYamlLoader))
        if len(docs) != 1:
            raise Violation("overwrite-not-a-single-document", f"{len(docs)} YAML documents in the file after the second write")
    labels = {kind}
    srcs = case["sources"] if kind != "unbinned" else []
    nt = any((not s.get("enabled", True)) or s["relative"] or s["kind"] == "matrix" or s.get("nearly_constant") for s in srcs) or (kind == "hist_set_bins" and case["under"] != case["over"])
    for s in srcs:
        if not s.get("enabled", True):
            labels.add("disabled_source")
        if s.get("nearly_constant"):
            labels.add("nearly_constant_vector")
    return {"nontrivial": bool(nt), "labels": sorted(labels)}


# ---------------------------------------------------------------------------------------------------
# constraints

@st.composite
def strat_constraints(draw, tier="quick"):
    k = draw(st.integers(1, 3))
    return {"k": k, "kind": draw(st.sampled_from(["simple_abs", "simple_rel", "matrix_cov_abs", "matrix_cov_rel", "matrix_cor_abs", "matrix_cor_rel"])),
            "values": draw(st.lists(st.one_of(st.floats(1.5, 10), st.floats(-10, -1.5)), min_size=k, max_size=k)), "e": draw(st.lists(st.floats(0.05, 0.9), min_size=k, max_size=k)),
            "R": draw(S.corr_matrix(k)), "points": draw(st.lists(st.lists(st.floats(-5, 5), min_size=4, max_size=4), min_size=2, max_size=3))}


def run_constraints(case):
    con = _k("kafe2.core.constraint")
    k = case["k"]
    v, e, R = np.array(case["values"]), np.array(case["e"]), np.array(case["R"])
    kind = case["kind"]
    idx = list(range(k))
    with guard("construct"):
        if kind.startswith("simple"):
            c = con.GaussianSimpleParameterConstraint(index=0, value=float(v[0]), uncertainty=float(e[0]), relative=kind.endswith("rel"))
        elif "cov" in kind:
            c = con.GaussianMatrixParameterConstraint(indices=idx, values=v, matrix=np.outer(e, e) * R, matrix_type="cov", relative=kind.endswith("rel"))
        else:
            c = con.GaussianMatrixParameterConstraint(indices=idx, values=v, matrix=R, matrix_type="cor", uncertainties=e, relative=kind.endswith("rel"))
    path = _path("c09_constraint.yml")
    with guard(f"constraint.to_file[{kind}]"):
        c.to_file(path)
    with guard(f"constraint.from_file[{kind}]"):
        r = type(c).from_file(path)
    with guard("constraint.from_file(base class)"):
        rb = con.ParameterConstraint.from_file(path)
    for pt in case["points"]:
        p = np.array(pt)
        a, b, b2 = float(c.cost(p)), float(r.cost(p)), float(rb.cost(p))
        if not (_eq(a, b, 1e-10) and _eq(a, b2, 1e-10)):
            raise Violation(f"constraint[{kind}]:cost", f"values {v.tolist()} e {e.tolist()}: cost {a!r} before, {b!r} / {b2!r} after reload at {p.tolist()}")
    return {"nontrivial": True, "labels": [kind]}


# ---------------------------------------------------------------------------------------------------
# parametric models and model functions

_MODEL_KINDS = ["xy", "indexed", "hist", "unbinned"]


@st.composite
def strat_models(draw, tier="quick"):
    from .. import models as M

    kind = draw(st.sampled_from(_MODEL_KINDS))
    n = draw(st.integers(3, 6))
    case = {"kind": kind, "n": n, "label": draw(st.one_of(st.none(), st.sampled_from(["my model", "Modell 2"]))), "via": draw(st.sampled_from(["own", "base"])),
            "pts": draw(st.lists(st.floats(-0.3, 0.3), min_size=4, max_size=4))}
    if kind == "xy":
        fam = draw(st.sampled_from(["line", "quad", "expo", "sincos", "lorentz"]))
        case["family"] = fam
        names = M.XY_FAMILIES[fam][0]
        case["x"] = np.cumsum(draw(st.lists(st.floats(0.25, 2.0), min_size=n, max_size=n))).tolist()
    elif kind == "indexed":
        case["n_par"] = draw(st.integers(1, 3))
        case["nonlinear"] = draw(st.booleans())
        names = ["p", "q", "r"][:case["n_par"]]
    else:
        dn = draw(st.sampled_from(sorted(M.DENSITIES)))
        case["density_name"] = dn
        names = M.DENSITIES[dn][0]
        if kind == "hist":
            w = draw(st.lists(st.floats(0.3, 1.5), min_size=n, max_size=n))
            lo = draw(st.floats(0.1, 1.0))
            case["edges"] = (lo + np.concatenate([[0.0], np.cumsum(w)])).tolist()
            case["equal_bins"] = draw(st.booleans())
            case["bin_evaluation"] = draw(st.sampled_from(["simpson", "numerical", "rectangle"]))
            case["density"] = draw(st.booleans())
        else:
            case["x"] = draw(st.lists(st.floats(0.1, 4.0), min_size=n, max_size=n))
    case["order"] = draw(st.permutations(list(names)))
    case["params"] = {nm: draw(st.floats(0.5, 2.5)) for nm in names}
    case["defaults"] = {nm: draw(st.sampled_from([1.0, 1.5, 0.75])) for nm in names}
    srcs = []
    if kind != "unbinned":
        for i in range(draw(st.integers(0, 2))):
            srcs.append(draw(S.source(n, f"m{i}", "model", draw(st.sampled_from(["x", "y"])) if kind == "xy" else None, 0.2)))
    case["sources"] = srcs
    return case


def _build_model(case):
    from .. import models as M
    kafe2 = _k("kafe2")
    fit = _k("kafe2.fit")
    base = _k("kafe2.fit._base")
    kind, n, order = case["kind"], case["n"], case["order"]
    p = [case["params"][nm] for nm in order]
    if kind == "xy":
        f, src = M.xy_function(case["family"], order=order, defaults=case["defaults"])
        m = fit.XYParametricModel(np.asarray(case["x"], float), base.ModelFunctionBase(f), p)
    elif kind == "indexed":
        f, names, ref, _wb, src = M.indexed_function(n, case["n_par"], case["nonlinear"])
        p = [case["params"][nm] for nm in names]
        m = fit.IndexedParametricModel(fit.IndexedModelFunction(f), p)
    elif kind == "hist":
        f, F, names, rf, rF, src = M.density_functions(case["density_name"], order=order, defaults=case["defaults"])
        e = np.asarray(case["edges"], float)
        kw = dict(n_bins=n, bin_range=(float(e[0]), float(e[-1])), model_density_func=fit.HistModelFunction(f), model_parameters=p, bin_evaluation=case["bin_evaluation"], density=case["density"])
        if not case["equal_bins"]:
            kw["bin_edges"] = e
        m = fit.HistParametricModel(**kw)
    else:
        f, F, names, rf, rF, src = M.density_functions(case["density_name"], order=order, defaults=case["defaults"])
        m = fit.UnbinnedParametricModel(np.asarray(case["x"], float), base.ModelFunctionBase(f), p)
    for s in case["sources"]:
        pre = (s["axis"],) if kind == "xy" else ()
        kw = dict(name=s["name"], relative=s["relative"])
        if s["kind"] == "simple":
            ev = float(s["err"][0]) if s["scalar"] else np.asarray(s["err"], float)[:n]
            m.add_error(*pre, ev, correlation=s["rho"], **kw)
        else:
            R = np.asarray(s["R"], float)[:n, :n]
            e_ = np.asarray(s["e"], float)[:n]
            if s["form"] == "cor":
                m.add_matrix_error(*pre, R, "cor", err_val=e_, **kw)
            else:
                m.add_matrix_error(*pre, np.outer(e_, e_) * R, "cov", **kw)
        if not s.get("enabled", True):
            m.disable_error(s["name"])
    if case["label"]:
        m.label = case["label"]
    return m, src


def _model_observables(m, case):
    kind = case["kind"]
    out = {"parameters": np.asarray(m.parameters, float).copy(), "data": np.asarray(m.data, float).copy(), "label": m.label}
    mf = m._model_function_object
    out["function_name"] = mf.name
    out["function_args"] = [af.arg_name for af in mf.formatter.arg_formatters]
    if kind == "xy":
        out["x"] = np.asarray(m.x, float)
        out["x_cov"], out["y_cov"] = np.asarray(m.x_cov_mat, float), np.asarray(m.y_cov_mat, float)
    elif kind != "unbinned":
        out["cov"] = np.asarray(m.cov_mat, float)
    if kind == "hist":
        out["edges"], out["density"], out["bin_evaluation"] = np.asarray(m.bin_edges, float), bool(m.density), m.bin_evaluation_string
    if kind == "unbinned":
        out["support"] = np.asarray(m.support, float)
    else:
        errs = m.get_matching_errors()
        out["sources"] = sorted((nm, bool(m.get_error(nm)["enabled"]), bool(e.relative), type(e).__name__) for nm, e in errs.items())
    # the same function: evaluate at a second parameter vector
    keep = np.asarray(m.parameters, float).copy()
    m.parameters = [v * (1 + case["pts"][j % 4]) for j, v in enumerate(keep)]
    out["data_at_other_parameters"] = np.asarray(m.data, float).copy()
    if kind == "xy":
        out["y_cov_at_other_parameters"] = np.asarray(m.y_cov_mat, float).copy()
    elif kind != "unbinned":
        out["cov_at_other_parameters"] = np.asarray(m.cov_mat, float).copy()
    m.parameters = keep
    return out


def run_models(case):
    base = _k("kafe2.fit._base")
    kind = case["kind"]
    with guard(f"build-model[{kind}]"):
        m, src = _build_model(case)
    cls = type(m)
    path = _path("c09_model.yml")
    with guard(f"model observables[{kind}]"):
        o0 = _model_observables(m, case)
    with guard(f"model.to_file[{kind}]"):
        m.to_file(path)
    with guard(f"model.from_file[{kind}:{case['via']}]"):
        r = cls.from_file(path)  # the declared base class of the models is a mixin without from_file: own class only
    if type(r) is not cls:
        raise Violation(f"model[{kind}]:class", f"{type(r).__name__} instead of {cls.__name__}")
    with guard(f"reloaded model observables[{kind}]"):
        o1 = _model_observables(r, case)
    _compare_obs(f"model[{kind}]", o0, o1)
    with guard("model.to_file(second cycle)"):
        r.to_file(_path("c09_model2.yml"))
        r2 = cls.from_file(_path("c09_model2.yml"))
    with guard(f"second-cycle model observables[{kind}]"):
        o2 = _model_observables(r2, case)
    _compare_obs(f"model[{kind}]:second-cycle", o1, o2)
    # the model function on its own
    mf = m._model_function_object
    with guard(f"model_function.to_file[{kind}]"):
        mf.to_file(_path("c09_mf.yml"))
    with guard(f"model_function.from_file[{kind}]"):
        rf = type(mf).from_file(_path("c09_mf.yml")) if case["via"] == "own" else base.ModelFunctionBase.from_file(_path("c09_mf.yml"))
    if type(rf) is not type(mf):
        raise Violation(f"model_function[{kind}]:class", f"{type(rf).__name__} instead of {type(mf).__name__}")
    with guard("model function call"):
        if kind == "indexed":
            a, b = mf(*o0["parameters"]), rf(*o0["parameters"])
        else:
            xs = np.asarray(case["x"] if "x" in case else case["edges"], float)
            a, b = mf(xs, *o0["parameters"]), rf(xs, *o0["parameters"])
        nm0, nm1, d0, d1 = mf.name, rf.name, [float(v) for v in mf.defaults], [float(v) for v in rf.defaults]
    if not _eq(a, b) or nm0 != nm1 or d0 != d1:
        raise Violation(f"model_function[{kind}]", f"name {nm0}/{nm1} defaults {d0}/{d1} values {np.asarray(a).tolist()} / {np.asarray(b).tolist()}")
    srcs = case["sources"]
    labels = {kind} | {"disabled_source" for s in srcs if not s.get("enabled", True)}
    nt = bool(srcs) or list(case["order"]) != sorted(case["order"]) or case["label"] is not None or any(v != 1.0 for v in case["defaults"].values())
    return {"nontrivial": bool(nt), "labels": sorted(labels)}


# ---------------------------------------------------------------------------------------------------
# custom fits (a cost function of the parameters only)

_CUSTOM = {
    "quadratic": (["a", "b"], "(a - {c0!r})**2/{s0!r}**2 + (b - {c1!r})**2/{s1!r}**2 + {k!r}*(a - {c0!r})*(b - {c1!r})"),
    "rosen_like": (["a", "b"], "(a - {c0!r})**2/{s0!r}**2 + ((b - {c1!r}) - {k!r}*(a - {c0!r})**2)**2/{s1!r}**2"),
    "three": (["a", "b", "c"], "(a - {c0!r})**2/{s0!r}**2 + (b - {c1!r})**2/{s1!r}**2 + (c - a*{k!r} - {c0!r})**2"),
}


@st.composite
def strat_custom(draw, tier="quick"):
    form = draw(st.sampled_from(sorted(_CUSTOM)))
    names = _CUSTOM[form][0]
    case = {"form": form, "c0": draw(st.floats(-3, 3)), "c1": draw(st.floats(0.5, 4)), "s0": draw(st.floats(0.1, 2)), "s1": draw(st.floats(0.1, 2)), "k": draw(st.floats(-0.5, 0.5)),
            "defaults": {nm: draw(st.sampled_from([1.0, 2.0, 0.5, -1.0])) for nm in names}, "values": {nm: draw(st.floats(-2, 4)) for nm in names}, "set_values": draw(st.booleans()),
            "fitted": draw(st.booleans()), "fix": draw(st.sampled_from([None, None, names[-1]])), "limit": draw(st.sampled_from([None, None, names[0]])),
            "constraint": draw(st.booleans()), "via": draw(st.sampled_from(["own", "base"])), "minimizer": draw(st.sampled_from(["iminuit", "scipy", None])),
            # options handed to the minimizer (errordef 0.5: the cost is a negative log-likelihood, not twice it) - they belong to the fit and must survive a save
            "mkw": draw(st.sampled_from([None, None, {"errordef": 0.5}])),
            "pts": draw(st.lists(st.lists(st.floats(-2, 2), min_size=3, max_size=3), min_size=2, max_size=3))}
    return case


def _build_custom(case):
    from .. import models as M
    kafe2 = _k("kafe2")
    names, text = _CUSTOM[case["form"]]
    expr = text.format(**{k_: float(case[k_]) for k_ in ("c0", "c1", "s0", "s1", "k")})
    src = M.render("my_cost", expr, names, case["defaults"], first_args=())
    f = M.compile_function(src, "my_cost")
    fit = kafe2.CustomFit(f, minimizer=case["minimizer"], **({"minimizer_kwargs": dict(case["mkw"])} if case.get("mkw") else {}))
    if case["set_values"]:
        fit.set_parameter_values(**case["values"])
    if case["fix"]:
        fit.fix_parameter(case["fix"], 0.25)
    if case["limit"]:
        fit.limit_parameter(case["limit"], -6.0, 7.5)
    if case["constraint"]:
        fit.add_parameter_constraint(names[0], value=case["c0"] + 0.3, uncertainty=0.7)
    return fit, names


def _custom_observables(fit, names, case):
    out = {"names": list(fit.parameter_names), "values": np.asarray(fit.parameter_values, float).copy(), "fixed": {k_: float(v) for k_, v in fit._fitter.fixed_parameters.items()},
           "limited": {k_: [float(x) for x in v] for k_, v in fit._fitter.limited_parameters.items()}, "n_constraints": len(fit.parameter_constraints), "did_fit": bool(fit.did_fit),
           "cost": float(fit.cost_function_value)}
    keep = out["values"].copy()
    costs = []
    for pt in case["pts"]:
        p = {nm: float(pt[j]) for j, nm in enumerate(names) if nm not in out["fixed"]}
        fit.set_parameter_values(**p)
        costs.append(float(fit.cost_function_value))
    fit.set_all_parameter_values(keep)
    out["costs"] = np.array(costs)
    return out


def run_custom(case):
    base = _k("kafe2.fit._base")
    with guard("build-custom"):
        fit, names = _build_custom(case)
    if case["fitted"]:
        try:
            fit.do_fit()
        except Exception:
            raise Discard("do_fit failed (C05/C06's subject)")
        if not _valid_result(fit):
            raise Discard("do_fit did not produce a valid result")
    path = _path("c09_custom.yml")
    if case["fitted"]:
        with guard("stored results"):
            e0, c0 = np.asarray(fit.parameter_errors, float).copy(), np.asarray(fit.parameter_cov_mat, float).copy()
    with guard("custom.to_file"):
        fit.to_file(path)
    with guard(f"custom.from_file[{case['via']}]"):
        r = type(fit).from_file(path) if case["via"] == "own" else base.FitBase.from_file(path)
    if type(r) is not type(fit):
        raise Violation("custom:class", f"{type(r).__name__}")
    if case["fitted"]:
        with guard("reloaded stored results"):
            e1, c1 = np.asarray(r.parameter_errors, float), np.asarray(r.parameter_cov_mat, float)
        if not (_eq(e0, e1) and _eq(c0, c1)):
            raise Violation("custom:stored-results", f"errors {e0.tolist()} / {e1.tolist()}")
    with guard("custom observables"):
        o0 = _custom_observables(fit, names, case)
        o1 = _custom_observables(r, names, case)
    _compare_obs("custom", o0, o1)
    with guard("custom.to_file(second cycle)"):
        r.to_file(_path("c09_custom2.yml"))
        r2 = type(fit).from_file(_path("c09_custom2.yml"))
        o2 = _custom_observables(r2, names, case)
    _compare_obs("custom:second-cycle", o1, o2)
    # refit
    try:
        for f in (fit, r):
            f.do_fit()
    except Exception:
        raise Discard("refit failed")
    va, ea, vb = np.asarray(fit.parameter_values, float), np.asarray(fit.parameter_errors, float), np.asarray(r.parameter_values, float)
    free = np.array([nm not in o0["fixed"] for nm in names])
    if fit.parameter_cov_mat is None or not np.all(np.isfinite(ea[free]) & (ea[free] > 1e-9)):
        raise Discard("refit of the original did not produce a valid minimum")
    sd = np.where(free, ea, 1e-9)
    if np.any(np.abs(va - vb) > 0.03 * sd):
        raise Violation("custom:refit", f"{va.tolist()} / {vb.tolist()} (sigma {ea.tolist()})")
    eb = np.asarray(r.parameter_errors, float)
    # the refit of the reloaded fit reports the same uncertainties (15 %: with iminuit these are MIGRAD's running estimates; a lost errordef is a factor 1.41)
    if np.all(np.isfinite(eb[free])) and np.any(np.abs(ea - eb)[free] > 0.15 * ea[free]):
        raise Violation("custom:refit-errors", f"uncertainties after refitting: original {ea.tolist()}, reloaded {eb.tolist()} (minimizer {case['minimizer']!r}, minimizer_kwargs {case.get('mkw')!r})")
    labels = {"custom", "fitted" if case["fitted"] else "unfitted"} | ({"values_set"} if case["set_values"] else set()) | ({"minimizer_kwargs"} if case.get("mkw") else set())
    return {"nontrivial": bool(case["set_values"] or case["fitted"] or case["fix"] or case["limit"] or case["constraint"]), "labels": sorted(labels)}


# ---------------------------------------------------------------------------------------------------
# fits

@st.composite
def strat_fits(draw, tier="quick"):
    t = draw(st.sampled_from(["xy", "xy", "indexed", "hist", "unbinned"]))
    mini = draw(st.sampled_from(["iminuit", "iminuit", "scipy"]))
    if t == "xy":
        spec = draw(S.xy_spec(families=["line", "quad", "expo", "sincos"], costs=("chi2", "chi2", "chi2_covariance", "nll_gaussian"), n_sources=(1, 4), limits=True, minimizers=(mini,),
                              model_only_first=0.1, min_points=5, sigma_rel=(0.01, 0.08), permute_params=True))
    elif t == "indexed":
        spec = draw(S.indexed_spec(costs=("chi2",), n_sources=(1, 3), minimizers=(mini,)))
    elif t == "hist":
        spec = draw(S.hist_spec(costs=("nll", "chi2", "gauss_approximation"), densities=("normal", "normal", "expon", "lin_density"), n_sources=(1, 2), minimizers=(mini,),
                                bin_evaluations=("simpson", "numerical", "rectangle")))  # lin_density: a model that is not a density (density=False)
        if spec["cost"] == "nll":
            spec["sources"] = []
    else:
        spec = draw(S.unbinned_spec(minimizers=(mini,)))
    if t in ("xy", "indexed"):
        n = len(spec["x"]) if t == "xy" else spec["n"]
        if not any(s["ref"] == "data" and (s.get("axis") or "y") == "y" and not s["relative"] and s.get("enabled", True) and s.get("rho", 0) < 1 and s["kind"] == "simple" for s in spec["sources"]):
            spec["sources"].insert(0, {"name": "base", "ref": "data", "axis": "y" if t == "xy" else None, "kind": "simple", "scalar": True, "err": [spec["sigma"]] * 8, "rho": 0.0,
                                       "relative": False, "enabled": True})
    return {"spec": spec, "fitted": draw(st.booleans()), "asym": draw(st.sampled_from([False, False, True])), "pts": draw(st.lists(st.lists(st.floats(-0.2, 0.2), min_size=4, max_size=4), min_size=3, max_size=3)),
            "via": draw(st.sampled_from(["own", "base"])), "one_sided": draw(st.sampled_from([None, None, "lower", "upper"]))}


def _fit_observables(fit, names, pts, tb, fixed):
    out = {}
    out["names"] = list(fit.parameter_names)
    out["values"] = np.asarray(fit.parameter_values, float).copy()
    out["data"] = np.asarray(fit.data, float)
    out["fixed"] = {k_: float(v) for k_, v in fit._fitter.fixed_parameters.items()}
    out["limited"] = {k_: [None if x is None else float(x) for x in v] for k_, v in fit._fitter.limited_parameters.items()}
    out["did_fit"] = bool(fit.did_fit)
    out["n_constraints"] = len(fit.parameter_constraints)
    srcs = fit.get_matching_errors()
    out["sources"] = sorted(srcs)
    out["has_model_errors"], out["has_data_errors"] = bool(fit.has_model_errors), bool(fit.has_data_errors)
    if out["did_fit"]:
        out["errors"] = np.asarray(fit.parameter_errors, float)
        out["cov"] = None if fit.parameter_cov_mat is None else np.asarray(fit.parameter_cov_mat, float)
    costs, covs = [], []
    keep = np.asarray(fit.parameter_values, float).copy()
    for pt in pts:
        p = {nm: (fixed[nm] if nm in fixed else tb[nm] * (1 + pt[j % 4]) + 0.01 * pt[(j + 1) % 4]) for j, nm in enumerate(names)}
        for nm in ("sigma", "tau"):
            if nm in p and nm not in fixed:
                p[nm] = abs(p[nm]) + 0.2
        for nm, (lo, hi) in out["limited"].items():
            p[nm] = min(max(p[nm], -np.inf if lo is None else lo), np.inf if hi is None else hi)
        fit.set_parameter_values(**{nm: v for nm, v in p.items() if nm not in fixed})
        costs.append(float(fit.cost_function_value))
        covs.append(None if fit.total_cov_mat is None else np.asarray(fit.total_cov_mat, float).copy())
    out["costs"], out["covs"] = costs, covs
    return out


def run_fits(case):
    kafe2 = _k("kafe2")
    spec = dict(case["spec"])
    spec["dea"] = "nonlinear"
    names = fs.par_names(spec)
    tb = spec["truth"]
    for nm, v in list(spec["fixed"].items()):
        spec["fixed"][nm] = tb[nm] if v is None else v
    if any(0 < abs(tb[nm]) < 1e-3 for nm in names if nm not in spec["fixed"]):
        raise Discard("near-zero non-zero start value: the minimizer's initial step is derived from it, convergence from there is C06's subject")
    if any(0 < abs(float(v)) < 1e-300 for v in list(tb.values()) + [v for v in spec["fixed"].values() if v is not None]):
        raise Discard("denormal parameter value (the default step 0.1 * |value| underflows to 0): not a realistic input")
    with guard(f"build[{spec['type']}]"):
        fit = fs.build(spec)
        if case.get("one_sided") and spec.get("limits"):
            # one-sided limits: only the lower / only the upper bound of each limited parameter is kept
            for nm, (lo, hi) in spec["limits"].items():
                fit.unlimit_parameter(nm)
                if case["one_sided"] == "lower":
                    fit.limit_parameter(nm, lower=lo)
                else:
                    fit.limit_parameter(nm, upper=hi)
    if case["fitted"]:
        try:
            fit.do_fit(asymmetric_parameter_errors=case["asym"] and spec["minimizer"] == "iminuit")
        except Exception:
            raise Discard("do_fit failed (C05/C06's subject)")
        if not _valid_result(fit):
            raise Discard("do_fit did not produce a valid result (ill-posed problem: C05/C06's subject)")
    asym0 = fit.get_result_dict()["asymmetric_parameter_errors"] if case["fitted"] else None
    path = _path("c09_fit.yml")
    with guard(f"fit.to_file[{spec['type']}]"):
        fit.to_file(path)
    cls = type(fit)
    with guard(f"fit.from_file[{spec['type']}:{case['via']}]"):
        r = cls.from_file(path) if case["via"] == "own" else _k("kafe2.fit._base").FitBase.from_file(path)
    if type(r) is not cls:
        raise Violation("fit:class", f"{type(r).__name__} instead of {cls.__name__}")
    # stored results first (before anything moves the fits)
    if case["fitted"]:
        with guard("stored results"):
            e0, e1 = np.asarray(fit.parameter_errors, float), np.asarray(r.parameter_errors, float)
            c0, c1 = fit.parameter_cov_mat, r.parameter_cov_mat
            d0, d1 = fit.did_fit, r.did_fit
        if not (_eq(e0, e1) and _eq(c0, c1) and bool(d0) == bool(d1)):
            raise Violation(f"fit[{spec['type']}]:stored-results", f"errors {e0.tolist()} / {e1.tolist()}, did_fit {d0} / {d1}")
        asym1 = r.get_result_dict()["asymmetric_parameter_errors"]
        if (asym0 is None) != (asym1 is None) or (asym0 is not None and not _eq(np.array(list(asym0.values())), np.array(list(asym1.values())))):
            raise Violation(f"fit[{spec['type']}]:stored-asymmetric-errors", f"{asym0} / {asym1}")
    # the fit *state* (save_state / load_state): a second fit object built the same way takes over values and stored results, by parameter
    if case["fitted"]:
        spath = _path("c09_state.yml")
        with guard(f"fit.save_state[{spec['type']}]"):
            fit.save_state(spath)
        with guard(f"build[{spec['type']}]"):
            twin = fs.build(spec)
        with guard(f"fit.load_state[{spec['type']}]"):
            twin.load_state(spath)
        with guard("state: read"):
            sv = (np.asarray(twin.parameter_values, float), np.asarray(twin.parameter_errors, float), twin.parameter_cov_mat, twin.get_result_dict()["asymmetric_parameter_errors"])
            ov = (np.asarray(fit.parameter_values, float), np.asarray(fit.parameter_errors, float), fit.parameter_cov_mat, asym0)
        if list(twin.parameter_names) != list(fit.parameter_names):
            raise Violation(f"fit[{spec['type']}]:state:names", f"{list(twin.parameter_names)} / {list(fit.parameter_names)}")
        for what, a, b in zip(("parameter_values", "parameter_errors", "parameter_cov_mat"), ov[:3], sv[:3]):
            if not _eq(a, b):
                raise Violation(f"fit[{spec['type']}]:state:{what}", f"names {list(fit.parameter_names)}: saved {np.asarray(a).tolist()} / after load_state {np.asarray(b).tolist()}")
        if (ov[3] is None) != (sv[3] is None) or (ov[3] is not None and not _eq(np.array([ov[3][nm] for nm in fit.parameter_names]), np.array([sv[3][nm] for nm in fit.parameter_names]))):
            raise Violation(f"fit[{spec['type']}]:state:asymmetric_parameter_errors", f"{ov[3]} / {sv[3]}")
    o0 = _fit_observables(fit, names, case["pts"], tb, spec["fixed"])
    o1 = _fit_observables(r, names, case["pts"], tb, spec["fixed"])
    tag = f"fit[{spec['type']}:{spec['cost']}]"
    for key in ("names", "fixed", "limited", "n_constraints", "sources", "has_model_errors", "has_data_errors"):
        if o0[key] != o1[key] and not (key in ("fixed",) and set(o0[key]) == set(o1[key]) and _eq(list(o0[key].values()), [o1[key][k_] for k_ in o0[key]])):
            raise Violation(f"{tag}:{key}", f"original {o0[key]} reloaded {o1[key]}")
    if not _eq(o0["values"], o1["values"]):
        raise Violation(f"{tag}:parameter_values", f"{o0['values'].tolist()} / {o1['values'].tolist()}")
    if not _eq(o0["data"], o1["data"]):
        raise Violation(f"{tag}:data", "data differ")
    for k_, (a, b) in enumerate(zip(o0["covs"], o1["covs"])):
        if not _eq(a, b, 1e-10):
            raise Violation(f"{tag}:total_cov_mat", f"point {k_}: sources {[(s['name'], s['ref'], s.get('axis'), s['kind'], 'rel' if s['relative'] else 'abs', s.get('enabled', True)) for s in spec['sources']]}: "
                            f"max deviation {np.max(np.abs(np.asarray(a) - np.asarray(b))):.3g}")
    for k_, (a, b) in enumerate(zip(o0["costs"], o1["costs"])):
        if np.isfinite(a) and not _eq(a, b, 1e-9):
            raise Violation(f"{tag}:cost", f"point {k_}: {a!r} / {b!r}; constraints {[c['kind'] + ('-rel' if c['relative'] else '') for c in spec['constraints']]}, sources "
                            f"{[(s['name'], s['ref'], s.get('axis'), s['kind'], 'rel' if s['relative'] else 'abs', s.get('enabled', True)) for s in spec['sources']]}")
    # second cycle
    with guard("to_file(second cycle)"):
        r.to_file(_path("c09_fit2.yml"))
        r2 = cls.from_file(_path("c09_fit2.yml"))
    o2 = _fit_observables(r2, names, case["pts"], tb, spec["fixed"])
    for k_, (a, b) in enumerate(zip(o1["costs"], o2["costs"])):
        if np.isfinite(a) and not _eq(a, b, 1e-9):
            raise Violation(f"{tag}:second-cycle-cost", f"point {k_}: {a!r} / {b!r}")
    # refit
    start = {nm: tb[nm] * 1.03 for nm in names if nm not in spec["fixed"]}
    try:
        for f in (fit, r):
            f.set_parameter_values(**start)
            f.do_fit()
    except Exception:
        raise Discard("refit failed")
    va, ea, vb = np.asarray(fit.parameter_values, float), np.asarray(fit.parameter_errors, float), np.asarray(r.parameter_values, float)
    free = np.array([nm not in spec["fixed"] for nm in names])
    if fit.parameter_cov_mat is None or not np.isfinite(fit.cost_function_value) or not np.all(np.isfinite(ea[free]) & (ea[free] > 1e-6 * np.maximum(1.0, np.abs(va[free])))):
        raise Discard("refit of the original did not produce a valid minimum (ill-posed problem: C05/C06's subject)")
    sd = np.where(free, ea, 1e-9 * np.maximum(1.0, np.abs(va)))
    if np.any(np.abs(va - vb) > 0.03 * sd):
        raise Violation(f"{tag}:refit", f"{va.tolist()} / {vb.tolist()} (sigma {ea.tolist()})")
    srcs = spec["sources"]
    labels = {spec["type"], "fitted" if case["fitted"] else "unfitted"}
    nt = case["fitted"] or bool(spec["fixed"]) or bool(spec["limits"]) or bool(spec["constraints"]) or any((not s.get("enabled", True)) or s["relative"] or s["kind"] == "matrix" or s["ref"] == "model" for s in srcs)
    for s in srcs:
        if s["ref"] == "model":
            labels.add("model_source")
        if not s.get("enabled", True):
            labels.add("disabled_source")
    return {"nontrivial": bool(nt), "labels": sorted(labels)}


# ---------------------------------------------------------------------------------------------------
# model functions given by library name or by a SymPy definition string

_NAMED = ["linear_model", "line", "quadratic_model", "quadratic", "cubic_model", "exponential_model", "exp"]
_SYMPY = ["{n}: x a b={d0} -> a*x + b", "{n}: x A tau={d0} -> A*exp(-x/tau)", "{n}: x a w={d0} phi={d1} -> a*sin(w*x + phi)", "{n}: x p q={d0} -> p*sqrt(x) + q*x**2",
          "x c0 c1={d0} -> c0 + c1*x"]


@st.composite
def strat_named(draw, tier="quick"):
    how = draw(st.sampled_from(["library", "sympy", "sympy"]))
    n = draw(st.integers(4, 8))
    if how == "library":
        mf = draw(st.sampled_from(_NAMED))
    else:
        mf = draw(st.sampled_from(_SYMPY)).format(n=draw(st.sampled_from(["f", "g", "my_model"])), d0=draw(st.sampled_from([2.0, 1.5, 0.75])), d1=draw(st.sampled_from([0.5, 1.25])))
    return {"model": mf, "how": how, "x": np.cumsum(draw(st.lists(st.floats(0.3, 1.5), min_size=n, max_size=n))).tolist(), "y": draw(st.lists(st.floats(0.5, 9.0), min_size=n, max_size=n)),
            "e": draw(st.floats(0.1, 0.6)), "values": draw(st.lists(st.floats(0.6, 2.2), min_size=4, max_size=4)), "pts": draw(st.lists(st.lists(st.floats(0.5, 2.5), min_size=4, max_size=4), min_size=2, max_size=3)),
            "fix_first": draw(st.booleans()), "via": draw(st.sampled_from(["own", "base"]))}


def run_named(case):
    kafe2 = _k("kafe2")
    base = _k("kafe2.fit._base")
    with guard(f"build[{case['how']}]"):
        fit = kafe2.XYFit([np.asarray(case["x"], float), np.asarray(case["y"], float)], case["model"])
        fit.add_error("y", case["e"])
        names = list(fit.parameter_names)
        fit.set_all_parameter_values([case["values"][j % 4] for j in range(len(names))])
        if case["fix_first"]:
            fit.fix_parameter(names[0])

    def obs(f):
        o = {"names": list(f.parameter_names), "values": np.asarray(f.parameter_values, float).copy(), "function_name": f.model_function.name,
             "formatter_name": f.model_function.formatter.name, "fixed": sorted(f._fitter.fixed_parameters)}
        keep = o["values"].copy()
        costs = []
        for pt in case["pts"]:
            f.set_parameter_values(**{nm: pt[j % 4] for j, nm in enumerate(o["names"]) if nm not in o["fixed"]})
            costs.append(float(f.cost_function_value))
        f.set_all_parameter_values(keep)
        o["costs"] = np.array(costs)
        return o
    with guard("observables"):
        o0 = obs(fit)
    path = _path("c09_named.yml")
    with guard(f"to_file[{case['how']}]"):
        fit.to_file(path)
    with guard(f"from_file[{case['how']}]"):
        r = kafe2.XYFit.from_file(path) if case["via"] == "own" else base.FitBase.from_file(path)
    with guard("reloaded observables"):
        o1 = obs(r)
    _compare_obs(f"named[{case['how']}]", o0, o1)
    with guard("to_file(second cycle)"):
        r.to_file(_path("c09_named2.yml"))
        r2 = kafe2.XYFit.from_file(_path("c09_named2.yml"))
        o2 = obs(r2)
    _compare_obs(f"named[{case['how']}]:second-cycle", o1, o2)
    return {"nontrivial": True, "labels": [case["how"], case["model"].split(":")[-1].strip()[:30]]}


# ---------------------------------------------------------------------------------------------------
# corpus of shipped YAML files

def _corpus():
    files = sorted(glob.glob(os.path.join(REPO, "examples", "**", "*.yml"), recursive=True)) + sorted(glob.glob(os.path.join(REPO, "test-*.yml")))
    return files


def strat_corpus(tier):
    files = _corpus()
    return st.fixed_dictionaries({"i": st.integers(0, max(len(files) - 1, 0))})


def run_corpus(case):
    files = _corpus()
    if not files:
        raise Discard("no corpus")
    path = files[case["i"] % len(files)]
    base = _k("kafe2.fit._base").FitBase
    try:
        f0 = base.from_file(path)
    except Exception:
        raise Discard("not a fit file / not loadable on its own")
    with guard("to_file"):
        f0.to_file(_path("c09_corpus.yml"))
    with guard("from_file"):
        f1 = base.from_file(_path("c09_corpus.yml"))
    if type(f0) is not type(f1):
        raise Violation("corpus:class", f"{path}: {type(f0).__name__} / {type(f1).__name__}")
    with guard("observables"):
        a, b = float(f0.cost_function_value), float(f1.cost_function_value)
        va, vb = np.asarray(f0.parameter_values, float), np.asarray(f1.parameter_values, float)
    if not _eq(va, vb) or (np.isfinite(a) and not _eq(a, b, 1e-9)):
        raise Violation("corpus:cost", f"{os.path.relpath(path, REPO)}: cost {a!r} / {b!r}, values {va.tolist()} / {vb.tolist()}")
    return {"nontrivial": True, "labels": [type(f0).__name__], "key": os.path.relpath(path, REPO)}


SUBS = [
    Sub("containers", lambda tier: strat_containers(tier), run_containers, quick=1600, thorough=40000, about="containers written / read back, second cycle, overwrite"),
    Sub("constraints", lambda tier: strat_constraints(tier), run_constraints, quick=800, thorough=20000, about="constraints written / read back through their own class"),
    Sub("models", lambda tier: strat_models(tier), run_models, quick=800, thorough=20000, about="parametric models and model functions written / read back through their own class"),
    Sub("custom", lambda tier: strat_custom(tier), run_custom, quick=400, thorough=8000, about="custom fits: parameter values, fixed / limited / constrained parameters, cost, results, refit"),
    Sub("named", lambda tier: strat_named(tier), run_named, quick=320, thorough=6000, about="fits whose model function is given by a library name or a SymPy definition string"),
    Sub("fits", lambda tier: strat_fits(tier), run_fits, quick=480, thorough=10000, about="fits written / read back: observables, stored results, second cycle, refit"),
    Sub("corpus", strat_corpus, run_corpus, quick=96, thorough=200, shards=4, about="YAML files shipped with the repository: load, save, reload"),
]
