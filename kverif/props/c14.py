"""C14 - equivalent specifications of the same problem give identical results.

Pairs (spec_A, spec_B) of the families named in the property:
  sources     relative <-> absolute (reference of either sign; with rho > 0 the absolute twin is the explicit signed matrix);
              correlation matrix + errors <-> covariance matrix; simple rho <-> explicit matrix; scalar <-> constant vector  (on containers and on fits)
  constraints relative <-> absolute; covariance <-> correlation form                                          (constraint.cost(p))
  wrappers    xy_fit / indexed_fit / hist_fit / unbinned_fit / Fit with their keywords <-> explicitly constructed fits following the documented meaning
  models      library name <-> callable; SymPy-style string <-> callable
  yaml        shorthand (scalar errors, percent strings, lists, top-level keys, dict-form constraints) <-> explicit YAML
Oracle: metamorphic - cost at common parameter points and total covariance at rounding precision, do_fit() results at MINIMIZER tolerance.
"""
import importlib

import numpy as np
from hypothesis import strategies as st

from .. import fitspec as fs
from .. import models
from .. import strategies as S
from ..core import Discard, Violation, guard
from ..runner import Sub

PROPERTY = "C14"
RULE = ("pairs of equivalent specifications over the listed families x data x sizes x correlations x reference values of either sign x "
        "constraint values x parameter points; every generated pair is non-trivial unless the transformation is the identity (e.g. rho = 0 "
        "for 'simple <-> matrix'); distinct by case hash")
ASSUMPTIONS = [
    "covariances / costs of the two specifications are compared at 1e-9 relative (scaled by cond/1e3); fit results at 0.03 sigma / 5 % (iminuit "
    "MIGRAD error estimates 12 %)",
    "wrappers are called with save=False, report=False; their documented meaning: *_error -> simple absolute source (2-d: covariance matrix), "
    "*_error_rel -> relative (to the model for y when errors_rel_to_model=True), *_error_cor -> one fully correlated source per entry; "
    "p0/limits/fixed/constraints forwarded to the corresponding fit methods",
    "SymPy strings over + - * / ** exp sin cos with <= 4 symbols",
    "2-d relative y uncertainties are only passed to wrappers with errors_rel_to_model=False (matrix sources relative to the model are "
    "documented as not implemented)",
]


def _k(name):
    import kafe2  # noqa

    return importlib.import_module(name)


def _close(a, b, factor=1.0):
    a, b = np.asarray(a, float), np.asarray(b, float)
    if a.shape != b.shape:
        return False
    sc = max(float(np.max(np.abs(a))) if a.size else 0.0, float(np.max(np.abs(b))) if b.size else 0.0)
    return bool(np.all(np.abs(a - b) <= factor * (1e-9 * (np.abs(a) + np.abs(b)) + 1e-11 * sc)))


# ---------------------------------------------------------------------------------------------------
# sources on containers

@st.composite
def strat_sources(draw, tier="quick"):
    n = draw(st.integers(1, 6))
    kind = draw(st.sampled_from(["rel_abs", "cor_cov", "rho_matrix", "scalar_vector", "rel_abs_matrix"]))
    vals = draw(st.lists(st.one_of(st.floats(0.1, 20), st.floats(-20, -0.1)), min_size=n, max_size=n))
    return {"n": n, "kind": kind, "container": draw(st.sampled_from(["indexed", "xy_x", "xy_y", "hist"])), "values": vals,
            "err": draw(st.lists(st.floats(0.01, 3.0), min_size=n, max_size=n)), "rho": draw(st.sampled_from([0.0, 0.3, 0.7, 1.0])),
            "R": draw(S.corr_matrix(n)), "scalar": draw(st.floats(0.01, 3.0)), "reuse_buffers": draw(st.booleans())}


def _container(which, vals, n):
    if which == "indexed":
        c = _k("kafe2.fit.indexed.container").IndexedContainer(vals)
        return c, (), "cov_mat"
    if which == "hist":
        # integer bin contents (the container stores them as integers): |round(v)| entries in bin i
        ent = [i + 0.5 for i, v in enumerate(vals) for _ in range(int(abs(round(v))))]
        c = _k("kafe2.fit.histogram.container").HistContainer(n, (0.0, float(n)), fill_data=ent)
        return c, (), "cov_mat"
    other = list(np.linspace(1.0, 2.0, n))
    XY = _k("kafe2.fit.xy.container").XYContainer
    if which == "xy_x":
        return XY(vals, other), ("x",), "x_cov_mat"
    return XY(other, vals), ("y",), "y_cov_mat"


def run_sources(case):
    n = case["n"]
    vals = np.array(case["values"][:n], float)
    e = np.array(case["err"][:n], float)
    rho = float(case["rho"])
    R = np.array(case["R"], float)[:n, :n]
    kind = case["kind"]
    if case["container"] == "hist":
        vals = np.abs(np.round(vals))  # the reference of relative sources is the bin contents
    cA, pre, attr = _container(case["container"], vals, n)
    cB, _, _ = _container(case["container"], vals, n)
    labels = {kind, case["container"]}
    if case.get("reuse_buffers"):
        # the arrays handed to side A are the caller's own buffers and are overwritten right after the calls (side B gets private copies)
        from ..core import scribble

        labels.add("caller_buffers_overwritten")
        e_A, R_A = e.copy(), R.copy()
    else:
        scribble = None
        e_A, R_A = e, R
    e_keep, R_keep = e.copy(), R.copy()
    with guard(f"add[{kind}]"):
        if kind == "rel_abs":
            cA.add_error(*pre, e_A, correlation=rho, relative=True)
            sig = e * vals  # signed
            Rm = (1 - rho) * np.eye(n) + rho * np.ones((n, n))
            if rho == 0:
                cB.add_error(*pre, np.abs(sig), relative=False)
            else:
                cB.add_matrix_error(*pre, np.outer(sig, sig) * Rm, "cov")
            if np.any(vals < 0) and np.any(vals > 0):
                labels.add("mixed_sign_reference")
        elif kind == "rel_abs_matrix":
            M = np.outer(e, e) * R
            cA.add_matrix_error(*pre, M, "cov", relative=True)
            cB.add_matrix_error(*pre, M * np.outer(vals, vals), "cov", relative=False)
        elif kind == "cor_cov":
            cA.add_matrix_error(*pre, R_A, "cor", err_val=e_A)
            cB.add_matrix_error(*pre, np.outer(e, e) * R, "cov")
        elif kind == "rho_matrix":
            cA.add_error(*pre, e_A, correlation=rho)
            Rm = (1 - rho) * np.eye(n) + rho * np.ones((n, n))
            cB.add_matrix_error(*pre, np.outer(e, e) * Rm, "cov")
        else:
            s = float(case["scalar"])
            cA.add_error(*pre, s, correlation=rho)
            cB.add_error(*pre, np.full(n, s), correlation=rho)
    if scribble is not None:
        scribble(e_A)
        scribble(R_A)
        e, R = e_keep, R_keep
    with guard("cov_mat"):
        VA, VB = getattr(cA, attr), getattr(cB, attr)
    if not _close(VA, VB):
        raise Violation(f"sources:{kind}", f"{case['container']}, values {vals.tolist()}: covariance {np.asarray(VA).tolist()} vs {np.asarray(VB).tolist()}")
    trivial = (kind in ("rho_matrix",) and rho == 0 and n == 1)
    return {"nontrivial": not trivial, "labels": sorted(labels)}


# ---------------------------------------------------------------------------------------------------
# constraints

@st.composite
def strat_constraints(draw, tier="quick"):
    k = draw(st.integers(1, 4))
    return {"k": k, "values": draw(st.lists(st.one_of(st.floats(0.2, 10), st.floats(-10, -0.2)), min_size=k, max_size=k)),
            "e": draw(st.lists(st.floats(0.05, 2.0), min_size=k, max_size=k)), "R": draw(S.corr_matrix(k)),
            "kind": draw(st.sampled_from(["simple_rel_abs", "matrix_rel_abs", "matrix_cov_cor", "matrix_rel_cor"])),
            "points": draw(st.lists(st.lists(st.floats(-3, 3), min_size=6, max_size=6), min_size=1, max_size=3)),
            "indices": draw(st.permutations([0, 1, 2, 3, 4, 5]))}


def run_constraints(case):
    con = _k("kafe2.core.constraint")
    k = case["k"]
    v = np.array(case["values"], float)
    e = np.array(case["e"], float)
    R = np.array(case["R"], float)
    idx = list(case["indices"][:k])
    kind = case["kind"]
    with guard("construct"):
        if kind == "simple_rel_abs":
            A = con.GaussianSimpleParameterConstraint(index=idx[0], value=v[0], uncertainty=e[0], relative=False)
            B = con.GaussianSimpleParameterConstraint(index=idx[0], value=v[0], uncertainty=e[0] / v[0], relative=True)
        elif kind == "matrix_rel_abs":
            C = np.outer(e, e) * R
            A = con.GaussianMatrixParameterConstraint(indices=idx, values=v, matrix=C, matrix_type="cov", relative=False)
            B = con.GaussianMatrixParameterConstraint(indices=idx, values=v, matrix=C / np.outer(v, v), matrix_type="cov", relative=True)
        elif kind == "matrix_cov_cor":
            A = con.GaussianMatrixParameterConstraint(indices=idx, values=v, matrix=np.outer(e, e) * R, matrix_type="cov")
            B = con.GaussianMatrixParameterConstraint(indices=idx, values=v, matrix=R, matrix_type="cor", uncertainties=e)
        else:
            A = con.GaussianMatrixParameterConstraint(indices=idx, values=v, matrix=np.outer(e, e) * R, matrix_type="cov")
            B = con.GaussianMatrixParameterConstraint(indices=idx, values=v, matrix=R, matrix_type="cor", uncertainties=e / v, relative=True)
    for pt in case["points"]:
        p = np.array(pt, float)
        with guard("cost"):
            a, b = float(A.cost(p)), float(B.cost(p))
        if abs(a - b) > 1e-9 * (abs(a) + abs(b)) * max(1.0, np.linalg.cond(R) / 10) + 1e-12:
            raise Violation(f"constraints:{kind}", f"values {v.tolist()}, e {e.tolist()}, indices {idx}: cost {a!r} vs {b!r} at {p.tolist()}")
    labels = {kind}
    if np.any(v < 0):
        labels.add("negative_value")
    return {"nontrivial": True, "labels": sorted(labels)}


# ---------------------------------------------------------------------------------------------------
# fits: wrappers, model forms, source forms

@st.composite
def strat_fits(draw, tier="quick"):
    kind = draw(st.sampled_from(["xy_wrapper", "xy_wrapper", "indexed_wrapper", "hist_wrapper", "unbinned_wrapper", "Fit_wrapper", "model_library", "model_sympy", "source_forms"]))
    mini = "iminuit"
    if kind in ("xy_wrapper", "model_library", "model_sympy", "source_forms", "Fit_wrapper"):
        fam = draw(st.sampled_from(["line", "quad", "cubic"] if kind == "model_library" else ["line", "quad", "sincos", "expo"]))
        spec = draw(S.xy_spec(families=[fam], costs=("chi2",), n_sources=(0, 0), constraints=False, fixed=False, minimizers=(mini,), min_points=5))
    elif kind == "indexed_wrapper":
        spec = draw(S.indexed_spec(costs=("chi2",), n_sources=(0, 0), constraints=False, fixed=False, minimizers=(mini,)))
    elif kind == "hist_wrapper":
        spec = draw(S.hist_spec(costs=("nll",), constraints=False, fixed=False, minimizers=(mini,), bin_evaluations=("simpson",)))
    else:
        spec = draw(S.unbinned_spec(constraints=False, fixed=False, minimizers=(mini,)))
    n = 8
    kw = {
        "y_error": draw(st.one_of(st.none(), st.floats(0.05, 0.5), st.lists(st.floats(0.05, 0.5), min_size=n, max_size=n), st.just("matrix"))),
        "x_error": draw(st.one_of(st.none(), st.none(), st.floats(0.01, 0.1), st.lists(st.floats(0.01, 0.1), min_size=n, max_size=n))),
        "y_error_rel": draw(st.one_of(st.none(), st.none(), st.floats(0.01, 0.1))),
        "x_error_rel": draw(st.one_of(st.none(), st.none(), st.floats(0.01, 0.05))),
        "y_error_cor": draw(st.one_of(st.none(), st.none(), st.floats(0.05, 0.3), st.lists(st.floats(0.05, 0.3), min_size=1, max_size=2))),
        "y_error_cor_rel": draw(st.one_of(st.none(), st.none(), st.floats(0.01, 0.05))),
        "errors_rel_to_model": draw(st.booleans()),
        "use_p0": draw(st.booleans()), "limit": draw(st.booleans()), "fix": draw(st.booleans()), "constrain": draw(st.booleans()),
        "R": draw(S.corr_matrix(n)),
    }
    return {"kind": kind, "spec": spec, "kw": kw, "pt": draw(st.lists(st.floats(-0.2, 0.2), min_size=4, max_size=4))}


def _results(fit):
    return (np.asarray(fit.parameter_values, float), np.asarray(fit.parameter_errors, float), float(fit.cost_function_value))


def _compare_fits(tag, fa, fb, names, pt, truth, fit=True):
    pA = [truth[nm] * (1 + pt[j % 4]) + 0.01 * pt[(j + 1) % 4] for j, nm in enumerate(names)]
    with guard("set_parameter_values"):
        fixed = set(fa._fitter.fixed_parameters)
        for f in (fa, fb):
            f.set_parameter_values(**{nm: v for nm, v in zip(names, pA) if nm not in fixed})
    with guard("cost_function_value"):
        ca, cb = float(fa.cost_function_value), float(fb.cost_function_value)
    if np.isfinite(ca) and np.isfinite(cb) and abs(ca - cb) > 1e-8 * (abs(ca) + abs(cb) + len(names)):
        raise Violation(f"{tag}:cost", f"cost {ca!r} vs {cb!r} at {dict(zip(names, pA))}")
    with guard("total_cov_mat"):
        Va, Vb = fa.total_cov_mat, fb.total_cov_mat
    if Va is not None and Vb is not None and not _close(Va, Vb, factor=10.0):
        raise Violation(f"{tag}:total_cov_mat", f"{np.asarray(Va).tolist()} vs {np.asarray(Vb).tolist()}")
    if fit:
        try:
            fa.do_fit()
            fb.do_fit()
        except Exception:
            raise Discard("do_fit failed (C05/C06's subject)")
        (va, ea, ca), (vb, eb, cb) = _results(fa), _results(fb)
        sd = np.where(np.isfinite(ea) & (ea > 0), ea, 1.0)
        if np.any(np.abs(va - vb) > 0.03 * sd) or abs(ca - cb) > 1e-3 + 1e-6 * abs(ca):
            raise Violation(f"{tag}:fit-result", f"values {va.tolist()} vs {vb.tolist()} (sigma {ea.tolist()}), cost {ca!r} vs {cb!r}")
        if np.all(np.isfinite(ea)) and np.all(np.isfinite(eb)) and np.any(np.abs(ea - eb) > 0.12 * sd):
            raise Violation(f"{tag}:fit-errors", f"{ea.tolist()} vs {eb.tolist()}")


def run_fits(case):
    kafe2 = _k("kafe2")
    wr = _k("kafe2.fit.util.wrapper")
    spec = case["spec"]
    kind = case["kind"]
    kw = case["kw"]
    names = fs.par_names(spec)
    tb = spec["truth"]
    labels = {kind}
    f_model = fs.make_model_function(spec)
    p0 = [tb[nm] * 1.05 for nm in names]
    extra = {}
    if kw["use_p0"]:
        extra["p0"] = p0
    lim = fixp = conp = None
    if kw["limit"]:
        lim = (names[0], tb[names[0]] - 5 * (1 + abs(tb[names[0]])), tb[names[0]] + 5 * (1 + abs(tb[names[0]])))
        extra["limits"] = lim
    if kw["fix"] and len(names) >= 2:
        fixp = (names[-1], tb[names[-1]])
        extra["fixed"] = fixp
    if kw["constrain"]:
        conp = (names[0], tb[names[0]] * 1.02, 0.1 * (1 + abs(tb[names[0]])))
        extra["constraints"] = conp

    def finish_explicit(fit):
        if kw["use_p0"]:
            fit.set_all_parameter_values(p0)
        if lim:
            fit.limit_parameter(*lim)
        if fixp:
            fit.fix_parameter(*fixp)
        if conp:
            fit.add_parameter_constraint(*conp)
        return fit

    wr._fit_history.clear()
    if kind in ("xy_wrapper", "Fit_wrapper", "model_library", "model_sympy", "source_forms"):
        x, y = np.asarray(spec["x"], float), np.asarray(spec["y"], float)
        n = len(x)
        sig = spec["sigma"]

        def arr(v, scale=1.0):
            if v is None:
                return None
            if v == "matrix":
                e = np.full(n, sig)
                return np.outer(e, e) * np.asarray(kw["R"], float)[:n, :n]
            if isinstance(v, list):
                return np.asarray(v[:n], float) * scale
            return float(v) * scale

        ye = arr(kw["y_error"], sig / 0.2 if not isinstance(kw["y_error"], str) else 1.0) if kw["y_error"] is not None else sig
        xe = arr(kw["x_error"])
        if kind == "xy_wrapper":
            yec = arr(kw["y_error_cor"], sig / 0.2)
            with guard("xy_fit"):
                res = wr.xy_fit(f_model, x, y, x_error=xe, y_error=ye, x_error_rel=kw["x_error_rel"], y_error_rel=kw["y_error_rel"], y_error_cor=yec,
                                y_error_cor_rel=kw["y_error_cor_rel"], errors_rel_to_model=kw["errors_rel_to_model"], report=False, profile=False, save=False, **extra)
            fw = res["fit"]
            with guard("explicit"):
                fe = kafe2.XYFit([x, y], f_model)
                if xe is not None:
                    fe.add_error("x", xe)
                if np.ndim(ye) == 2:
                    fe.add_matrix_error("y", ye, "cov")
                else:
                    fe.add_error("y", ye)
                if kw["x_error_rel"] is not None:
                    fe.add_error("x", kw["x_error_rel"], relative=True)
                if kw["y_error_rel"] is not None:
                    fe.add_error("y", kw["y_error_rel"], relative=True, reference="model" if kw["errors_rel_to_model"] else "data")
                if yec is not None:
                    for v in np.atleast_1d(yec):
                        fe.add_error("y", float(v), correlation=1.0)
                if kw["y_error_cor_rel"] is not None:
                    fe.add_error("y", kw["y_error_cor_rel"], correlation=1.0, relative=True, reference="model" if kw["errors_rel_to_model"] else "data")
                finish_explicit(fe)
            for nm, v in (("x_error", xe), ("y_error_rel", kw["y_error_rel"]), ("y_error_cor", yec), ("y_error_cor_rel", kw["y_error_cor_rel"]), ("x_error_rel", kw["x_error_rel"])):
                if v is not None:
                    labels.add(nm)
            if np.ndim(ye) == 2:
                labels.add("y_error_matrix")
            # the wrapper has already fitted: compare its results with the explicit fit's results, then the cost surface
            try:
                fe.do_fit()
            except Exception:
                raise Discard("do_fit failed")
            (va, ea, ca), (vb, eb, cb) = _results(fw), _results(fe)
            sd = np.where(np.isfinite(ea) & (ea > 0), ea, 1.0)
            if np.any(np.abs(va - vb) > 0.03 * sd) or abs(ca - cb) > 1e-3 + 1e-6 * abs(ca):
                raise Violation("wrapper:xy_fit:fit-result", f"wrapper {va.tolist()} cost {ca!r}; explicit {vb.tolist()} cost {cb!r}; keywords {sorted(labels)} {extra}")
            if not np.array_equal(res["parameter_values"] if not isinstance(res["parameter_values"], dict) else np.array(list(res["parameter_values"].values())), va):
                raise Violation("wrapper:xy_fit:result-dict", f"{res['parameter_values']} vs fit {va.tolist()}")
            _compare_fits("wrapper:xy_fit", fw, fe, names, case["pt"], tb, fit=False)
        elif kind == "Fit_wrapper":
            with guard("Fit"):
                fw = kafe2.Fit([x, y], f_model, minimizer="iminuit")
                fw2 = kafe2.Fit(kafe2.XYContainer(x, y), f_model)
            fe = kafe2.XYFit([x, y], f_model)
            for f in (fw, fw2, fe):
                f.add_error("y", ye if np.ndim(ye) != 2 else sig)
            _compare_fits("wrapper:Fit(list)", fw, fe, names, case["pt"], tb)
            _compare_fits("wrapper:Fit(container)", fw2, fe, names, case["pt"], tb, fit=False)
        elif kind == "model_library":
            lib = {"line": ["linear_model", "linear", "line"], "quad": ["quadratic_model", "quadratic", "quad"], "cubic": ["cubic_model", "cubic"]}[spec["family"]]
            libf = {"line": "linear_model", "quad": "quadratic_model", "cubic": "cubic_model"}[spec["family"]]
            fl = _k("kafe2.fit.util.function_library")
            for nm in lib:
                if nm not in fl.STRING_TO_FUNCTION:
                    continue
                with guard("library-name"):
                    fa = kafe2.XYFit([x, y], nm)
                    fb = kafe2.XYFit([x, y], getattr(fl, libf))
                for f in (fa, fb):
                    f.add_error("y", sig)
                _compare_fits(f"model:library:{nm}", fa, fb, list(fa.parameter_names), case["pt"], dict(zip(fa.parameter_names, [tb[k_] for k_ in names])))
        elif kind == "model_sympy":
            fam = models.family(spec["family"])
            s_expr = fam.expr_text
            s_str = f"{spec['family']}: x {' '.join(names)} -> {s_expr}"
            with guard("sympy-string"):
                fa = kafe2.XYFit([x, y], s_str)
                fb = kafe2.XYFit([x, y], f_model)
            if list(fa.parameter_names) != list(fb.parameter_names):
                raise Violation("model:sympy:parameter_names", f"{fa.parameter_names} vs {fb.parameter_names}")
            for f in (fa, fb):
                f.add_error("y", sig)
                f.set_all_parameter_values(p0)
            _compare_fits("model:sympy", fa, fb, names, case["pt"], tb)
        else:  # source forms on fits
            rel = kw["y_error_rel"] or 0.05
            rho = 0.5 if kw["y_error_cor"] is not None else 0.0
            fa = kafe2.XYFit([x, y], f_model)
            fb = kafe2.XYFit([x, y], f_model)
            fa.add_error("y", sig)
            fb.add_error("y", np.full(n, sig))
            fa.add_error("y", rel, relative=True, correlation=rho)
            sgn = rel * y
            Rm = (1 - rho) * np.eye(n) + rho * np.ones((n, n))
            fb.add_matrix_error("y", np.outer(sgn, sgn) * Rm, "cov")
            Rc = np.asarray(kw["R"], float)[:n, :n]
            ev = np.full(n, 0.5 * sig)
            fa.add_matrix_error("y", Rc, "cor", err_val=ev)
            fb.add_matrix_error("y", np.outer(ev, ev) * Rc, "cov")
            _compare_fits("sources-on-fit", fa, fb, names, case["pt"], tb)
    elif kind == "indexed_wrapper":
        d = np.asarray(spec["data"], float)
        sig = spec["sigma"]
        with guard("indexed_fit"):
            res = wr.indexed_fit(f_model, d, error=sig, error_rel=kw["y_error_rel"], error_cor=kw["y_error_cor"] if not isinstance(kw["y_error_cor"], list) else kw["y_error_cor"],
                                 errors_rel_to_model=kw["errors_rel_to_model"], report=False, profile=False, save=False, **extra)
        fw = res["fit"]
        with guard("explicit"):
            fe = kafe2.IndexedFit(d, f_model)
            fe.add_error(sig)
            if kw["y_error_cor"] is not None:
                for v in np.atleast_1d(kw["y_error_cor"]):
                    fe.add_error(float(v), correlation=1.0)
            if kw["y_error_rel"] is not None:
                fe.add_error(kw["y_error_rel"], relative=True, reference="model" if kw["errors_rel_to_model"] else "data")
            finish_explicit(fe)
        try:
            fe.do_fit()
        except Exception:
            raise Discard("do_fit failed")
        (va, ea, ca), (vb, eb, cb) = _results(fw), _results(fe)
        sd = np.where(np.isfinite(ea) & (ea > 0), ea, 1.0)
        if np.any(np.abs(va - vb) > 0.03 * sd) or abs(ca - cb) > 1e-3 + 1e-6 * abs(ca):
            raise Violation("wrapper:indexed_fit:fit-result", f"wrapper {va.tolist()} cost {ca!r}; explicit {vb.tolist()} cost {cb!r}; {extra}")
        _compare_fits("wrapper:indexed_fit", fw, fe, names, case["pt"], tb, fit=False)
    elif kind == "hist_wrapper":
        edges = [float(e) for e in spec["edges"]]
        ent = [float(e) for e in spec["entries"]]
        use_err = kw["y_error_cor"] is not None
        with guard("hist_fit"):
            res = wr.hist_fit(f_model, ent, n_bins=len(edges) - 1, bin_range=(edges[0], edges[-1]), bin_edges=edges, error=1.5 if use_err else None,
                              density=spec.get("density", True), report=False, profile=False, save=False, **extra)
        fw = res["fit"]
        with guard("explicit"):
            hc = kafe2.HistContainer(len(edges) - 1, (edges[0], edges[-1]), bin_edges=edges, fill_data=ent)
            fe = kafe2.HistFit(hc, f_model, cost_function="gauss_approximation" if use_err else "poisson", density=spec.get("density", True))
            if use_err:
                fe.add_error(np.full(len(edges) - 1, 1.5))  # the wrapper's scalar, written out as the constant vector
            finish_explicit(fe)
        try:
            fe.do_fit()
        except Exception:
            raise Discard("do_fit failed")
        (va, ea, ca), (vb, eb, cb) = _results(fw), _results(fe)
        sd = np.where(np.isfinite(ea) & (ea > 0), ea, 1.0)
        if np.any(np.abs(va - vb) > 0.03 * sd) or abs(ca - cb) > 1e-3 + 1e-6 * abs(ca):
            raise Violation("wrapper:hist_fit:fit-result", f"wrapper {va.tolist()} cost {ca!r}; explicit {vb.tolist()} cost {cb!r}; gauss_approximation={use_err} {extra}")
    else:
        smp = np.asarray(spec["samples"], float)
        with guard("unbinned_fit"):
            res = wr.unbinned_fit(f_model, smp, report=False, profile=False, save=False, **extra)
        fw = res["fit"]
        with guard("explicit"):
            fe = finish_explicit(kafe2.UnbinnedFit(smp, f_model))
        try:
            fe.do_fit()
        except Exception:
            raise Discard("do_fit failed")
        (va, ea, ca), (vb, eb, cb) = _results(fw), _results(fe)
        sd = np.where(np.isfinite(ea) & (ea > 0), ea, 1.0)
        if np.any(np.abs(va - vb) > 0.03 * sd) or abs(ca - cb) > 1e-3 + 1e-6 * abs(ca):
            raise Violation("wrapper:unbinned_fit:fit-result", f"wrapper {va.tolist()} cost {ca!r}; explicit {vb.tolist()} cost {cb!r}; {extra}")
    wr._fit_history.clear()
    import matplotlib.pyplot as plt

    plt.close("all")
    return {"nontrivial": True, "labels": sorted(labels)}


# ---------------------------------------------------------------------------------------------------
# YAML shorthand

@st.composite
def strat_yaml(draw, tier="quick"):
    spec = draw(S.xy_spec(families=["line", "quad"], costs=("chi2",), n_sources=(0, 0), constraints=False, fixed=False, min_points=4))
    n = len(spec["x"])
    return {"spec": spec, "y_form": draw(st.sampled_from(["scalar", "percent", "list", "mixed_list"])), "x_form": draw(st.sampled_from([None, "scalar", "percent", "list"])),
            "yv": draw(st.floats(0.05, 0.9)), "xv": draw(st.floats(0.01, 0.2)), "pct": draw(st.integers(1, 20)),
            "ylist": draw(st.lists(st.floats(0.05, 0.9), min_size=n, max_size=n)), "constraint_form": draw(st.sampled_from([None, "dict", "list"])),
            "model_form": draw(st.sampled_from(["library", "source"])), "pt": draw(st.lists(st.floats(-0.2, 0.2), min_size=4, max_size=4))}


def run_yaml(case):
    import yaml as pyyaml

    kafe2 = _k("kafe2")
    spec = case["spec"]
    x = [round(v, 6) for v in spec["x"]]
    y = [round(v, 6) for v in spec["y"]]
    n = len(x)
    names = fs.par_names(spec)
    tb = spec["truth"]
    fam = spec["family"]
    src_text = {"line": "def line(x, a=1.0, b=1.0):\n    return a * x + b\n", "quad": "def quad(x, a=1.0, b=1.0, c=1.0):\n    return a * x ** 2 + b * x + c\n"}[fam]
    lib = {"line": "linear_model", "quad": "quadratic_model"}[fam]
    short = {"x_data": x, "y_data": y}
    explicit = {"type": "xy", "dataset": {"type": "xy", "x_data": x, "y_data": y}}
    yf = case["y_form"]
    if yf == "scalar":
        short["y_errors"] = float(case["yv"])
        explicit["dataset"]["y_errors"] = [{"type": "simple", "error_value": float(case["yv"]), "relative": False, "correlation_coefficient": 0.0}]
    elif yf == "percent":
        short["y_errors"] = f"{case['pct']}%"
        explicit["dataset"]["y_errors"] = [{"type": "simple", "error_value": case["pct"] / 100.0, "relative": True, "correlation_coefficient": 0.0}]
    elif yf == "list":
        yl = [round(v, 6) for v in case["ylist"]]
        short["y_errors"] = yl
        explicit["dataset"]["y_errors"] = [{"type": "simple", "error_value": yl, "relative": False, "correlation_coefficient": 0.0}]
    else:
        yl = [round(v, 6) for v in case["ylist"]]
        mixed = [(f"{case['pct']}%" if i % 2 else yl[i]) for i in range(n)]
        short["y_errors"] = mixed
        rel = [(case["pct"] / 100.0 if i % 2 else 0.0) for i in range(n)]
        ab = [(0.0 if i % 2 else yl[i]) for i in range(n)]
        explicit["dataset"]["y_errors"] = [{"type": "simple", "error_value": rel, "relative": True, "correlation_coefficient": 0.0},
                                           {"type": "simple", "error_value": ab, "relative": False, "correlation_coefficient": 0.0}]
    xf = case["x_form"]
    if xf == "scalar":
        short["x_errors"] = float(case["xv"])
        explicit["dataset"]["x_errors"] = [{"type": "simple", "error_value": float(case["xv"]), "relative": False, "correlation_coefficient": 0.0}]
    elif xf == "percent":
        short["x_errors"] = f"{case['pct']}%"
        explicit["dataset"]["x_errors"] = [{"type": "simple", "error_value": case["pct"] / 100.0, "relative": True, "correlation_coefficient": 0.0}]
    elif xf == "list":
        xl = [round(case["xv"] * (1 + 0.1 * i), 6) for i in range(n)]
        short["x_errors"] = xl
        explicit["dataset"]["x_errors"] = [{"type": "simple", "error_value": xl, "relative": False, "correlation_coefficient": 0.0}]
    if case["model_form"] == "library":
        short["model_function"] = lib
        explicit["parametric_model"] = {"type": "xy", "x_data": x, "model_function": {"type": "xy", "python_code": lib}, "model_parameters": [1.0] * len(names)}
    else:
        short["model_function"] = src_text
        explicit["parametric_model"] = {"type": "xy", "x_data": x, "model_function": {"type": "xy", "python_code": src_text}, "model_parameters": [1.0] * len(names)}
    cf = case["constraint_form"]
    if cf is not None:
        cv, cu = round(tb[names[0]] * 1.02, 6), round(0.1 * (1 + abs(tb[names[0]])), 6)
        if cf == "dict":
            short["parameter_constraints"] = {names[0]: {"value": cv, "uncertainty": cu}}
        else:
            short["parameter_constraints"] = [{"name": names[0], "value": cv, "uncertainty": cu}]
        explicit["parameter_constraints"] = [{"type": "simple", "name": names[0], "value": cv, "uncertainty": cu, "relative": False}]
    with open("c14_short.yml", "w") as fh:
        pyyaml.safe_dump(short, fh)
    with open("c14_explicit.yml", "w") as fh:
        pyyaml.safe_dump(explicit, fh)
    with guard("from_file(shorthand)"):
        fa = kafe2.XYFit.from_file("c14_short.yml")
    with guard("from_file(explicit)"):
        fb = kafe2.XYFit.from_file("c14_explicit.yml")
    if list(fa.parameter_names) != list(fb.parameter_names):
        raise Violation("yaml:parameter_names", f"{fa.parameter_names} vs {fb.parameter_names}")
    _compare_fits(f"yaml:{yf}:{xf}:{case['model_form']}:{cf}", fa, fb, names, case["pt"], tb)
    return {"nontrivial": True, "labels": sorted({f"y_{yf}", f"x_{xf}", f"model_{case['model_form']}", f"constraint_{cf}"})}


SUBS = [
    Sub("sources", lambda tier: strat_sources(tier), run_sources, quick=6000, thorough=150000, about="equivalent source specifications on containers give the same covariance"),
    Sub("constraints", lambda tier: strat_constraints(tier), run_constraints, quick=4000, thorough=100000, about="relative/absolute and cov/cor forms of constraints give the same cost"),
    Sub("fits", lambda tier: strat_fits(tier), run_fits, quick=640, thorough=12000, about="wrappers vs explicit fits; model forms; source forms on fits"),
    Sub("yaml", lambda tier: strat_yaml(tier), run_yaml, quick=480, thorough=8000, about="YAML shorthand vs explicit YAML"),
]
