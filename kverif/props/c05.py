"""C05 - for models linear in the parameters the fit returns the generalised-least-squares solution.

Generated: xy fits with polynomial / general basis-function models, indexed linear maps, MultiFits of two linear xy members
sharing parameters; any mix of parameter-independent sources (absolute or data-relative, simple or matrix, on y); any subset
of fixed parameters; simple and matrix constraints; both backends; starting values anywhere within +-10 prior widths.
Oracle: closed-form GLS with constraints as extra measurement rows and fixed parameters as deleted columns (fitspec.Ref.gls).
"""
import numpy as np
from hypothesis import strategies as st
from scipy import linalg

from .. import fitspec as fs
from .. import strategies as S
from ..core import Discard, Violation, guard
from ..runner import Sub

PROPERTY = "C05"
RULE = ("linear problems (xy polynomial/basis models, indexed linear maps, two-member multi-fits) x sources x fixed subsets x constraints x "
        "backends x start values; non-trivial = >= 2 free parameters and (non-diagonal V or a constraint or a fixed parameter); distinct by case hash")
ASSUMPTIONS = [
    "MINIMIZER tolerance: |dp| <= 0.03 sigma, |dC_ij| <= 0.01 sqrt(C_ii C_jj) (0.05 / 0.15 when the condition number of the parameter correlation matrix exceeds 1e3 / 1e4: accuracy of numerical second derivatives; beyond 1e4 the iminuit (HESSE) matrix is not compared entry by entry, the scipy one still is), |d chi2| <= 1e-3 + 1e-6 chi2, "
    "asymmetric errors within 3 % of +-sigma (measured worst cases: 3e-3 sigma / 3e-4 / 1e-5)",
    "design matrices of full column rank with cond(W^T V^-1 W) <= 1e8 and cond(V) <= 1e6, otherwise discarded",
    "sources are parameter-independent: y axis, absolute or relative to the data",
]


def _tol_check(tag, fit, names, p_hat, C, chi2, logdet, free, backend, asym=True, n=0, labels=None):
    with guard("parameter_values"):
        pv = np.asarray(fit.parameter_values, float)
    sd = np.sqrt(np.diag(C))
    for i, nm in enumerate(names):
        if nm not in free:
            if pv[i] != p_hat[i]:
                raise Violation("fixed-value-moved", f"{tag}: fixed parameter {nm} = {pv[i]!r}, fixed at {p_hat[i]!r}")
        elif abs(pv[i] - p_hat[i]) > 0.03 * sd[i]:
            raise Violation(f"values[{backend}]", f"{tag}: {nm} = {pv[i]!r}, GLS {p_hat[i]!r} (deviation {(pv[i] - p_hat[i]) / sd[i]:.3g} sigma)")
    with guard("parameter_cov_mat"):
        Cg = np.asarray(fit.parameter_cov_mat, float)
        eg = np.asarray(fit.parameter_errors, float)
        Rg = np.asarray(fit.parameter_cor_mat, float)
    if Cg.shape != C.shape:
        raise Violation("cov-shape", f"{tag}: {Cg.shape}")
    scale = np.sqrt(np.outer(np.diag(C), np.diag(C)))
    fidx = [names.index(nm) for nm in free]
    fixed_idx = [i for i in range(len(names)) if i not in fidx]
    if fixed_idx and (np.any(Cg[fixed_idx, :] != 0) or np.any(Cg[:, fixed_idx] != 0)):
        raise Violation(f"cov-fixed-rows[{backend}]", f"{tag}: rows/columns of fixed parameters are not zero: {Cg.tolist()} (fixed: {[names[i] for i in fixed_idx]})")
    sub = np.ix_(fidx, fidx)
    # numerical second derivatives (HESSE / numdifftools) lose accuracy with the correlation of the parameters: 1 % up to a condition number
    # of 1e3 of the correlation matrix, 5 % beyond (cubic polynomials reach 1e4)
    with np.errstate(all="ignore"):
        cond_cor = np.linalg.cond(C[sub] / scale[sub]) if len(fidx) > 1 else 1.0
    ctol = 0.01 if cond_cor <= 1e3 else (0.05 if cond_cor <= 1e4 else 0.15)  # measured: 3-8 % at 3e4 (cubic polynomial)
    if cond_cor > 1e4 and backend == "iminuit":
        # HESSE's second differences carry a relative error of ~1e-5; inverting amplifies it by the condition number (measured: 5 % and 17 % for the *same* cubic
        # through 5 points at 1.5e4, depending on where MIGRAD stopped).  Beyond 1e4 the matrix MINUIT returns is not compared entry by entry (as in C15);
        # values, chi2, cost and the correlation structure still are, and the scipy backend (numdifftools, 1e-11 here) is compared at every condition number
        ctol = np.inf
        if labels is not None:
            labels.add("iminuit_cov_not_compared_cond>1e4")
    if np.any(np.abs(Cg[sub] - C[sub]) > ctol * scale[sub] + 1e-300):
        raise Violation(f"cov[{backend}]", f"{tag}: parameter_cov_mat {Cg.tolist()} vs (W^T V^-1 W)^-1 {C.tolist()} (free: {free})")
    if np.any(np.abs(eg[fidx] - sd[fidx]) > ctol * sd[fidx]) or (fixed_idx and np.any(eg[fixed_idx] != 0)):
        raise Violation(f"errors[{backend}]", f"{tag}: parameter_errors {eg.tolist()} vs sqrt(diag) {sd.tolist()}")
    with np.errstate(all="ignore"):
        Rw = C[sub] / scale[sub]
        if not np.isfinite(ctol):
            # not compared with GLS (see above); the correlation matrix must still be the normalisation of the matrix that *is* reported
            dg = np.sqrt(np.diag(Cg)[fidx])
            Rw = Cg[sub] / np.outer(dg, dg)
    if np.any(np.abs(Rg[sub] - Rw) > 0.02):
        raise Violation(f"cor[{backend}]", f"{tag}: parameter_cor_mat {Rg.tolist()} vs {Rw.tolist()} on the free block")
    with guard("goodness_of_fit"):
        gof = fit.goodness_of_fit
        cost = fit.cost_function_value
    if gof is not None and abs(float(gof) - chi2) > 1e-3 + 1e-6 * chi2:
        raise Violation(f"chi2[{backend}]", f"{tag}: goodness_of_fit {gof!r} vs GLS chi2 {chi2!r}")
    if logdet is not None and abs(float(cost) - (chi2 + logdet)) > 1e-3 + 1e-6 * (abs(chi2) + abs(logdet)):
        raise Violation(f"cost[{backend}]", f"{tag}: cost_function_value {cost!r} vs chi2 + ln det V = {chi2 + logdet!r}")
    if asym:
        with guard("asymmetric_parameter_errors"):
            ae = np.asarray(fit.asymmetric_parameter_errors, float)
        for i, nm in enumerate(names):
            if nm in free:
                if abs(ae[i, 0] + sd[i]) > 0.03 * sd[i] or abs(ae[i, 1] - sd[i]) > 0.03 * sd[i]:
                    raise Violation(f"asymmetric[{backend}]", f"{tag}: {nm}: asymmetric errors {ae[i].tolist()} vs -+{sd[i]!r}")
            elif np.any(ae[i] != 0):
                raise Violation(f"asymmetric-fixed[{backend}]", f"{tag}: fixed {nm}: {ae[i].tolist()}")
        # the optimum must still be the optimum afterwards
        with guard("parameter_values"):
            pv2 = np.asarray(fit.parameter_values, float)
        if np.any(np.abs(pv2 - p_hat) > 0.04 * np.where(sd > 0, sd, 1.0)):
            raise Violation(f"moved-by-asymmetric-errors[{backend}]", f"{tag}: parameter values {pv2.tolist()} after asymmetric errors, GLS {p_hat.tolist()}")


@st.composite
def strat_single(draw, tier="quick"):
    t = draw(st.sampled_from(["xy", "xy", "indexed"]))
    mini = draw(st.sampled_from(["iminuit", "scipy"]))
    if t == "xy":
        spec = draw(S.xy_spec(families=S.LINEAR_FAMILIES, costs=("chi2", "chi2", "chi2_covariance", "chi2_fast"), n_sources=(1, 4), x_errors=False, model_sources=False,
                              minimizers=(mini,), y_scales=(None, None, None, 1e-3, 1e3)))
    else:
        spec = draw(S.indexed_spec(costs=("chi2", "chi2_covariance"), n_sources=(1, 4), model_sources=False, minimizers=(mini,)))
    # starting values anywhere: truth + k * width
    far = draw(st.lists(st.floats(-10, 10), min_size=4, max_size=4))
    spec["start_far"] = far
    spec["asym"] = draw(st.sampled_from([True, False, False])) if mini == "scipy" else draw(st.booleans())
    return {"spec": spec}


def run_single(case):
    spec = case["spec"]
    ref = fs.Ref(spec)
    names = ref.names
    try:
        p_hat, C, chi2, condH = ref.gls()
        V = ref.total_cov({nm: 1.0 for nm in names})
        ev = np.linalg.eigvalsh(V)
    except np.linalg.LinAlgError:
        raise Discard("singular")
    if ev.min() <= 0 or ev.max() / ev.min() > 1e6 or condH > 1e8 or not np.all(np.isfinite(C)):
        raise Discard("ill-conditioned linear system")
    free = [nm for nm in names if nm not in spec["fixed"]]
    sd = np.sqrt(np.diag(C))
    # start: far away in units of the GLS width (fixed ones keep their fixed value)
    start = {nm: float(p_hat[i] + spec["start_far"][i % 4] * sd[i]) for i, nm in enumerate(names) if nm in free}
    spec = dict(spec, start=start)
    with guard(f"build[{spec['type']}]"):
        fit = fs.build(spec)
    with guard("do_fit"):
        fit.do_fit()
    logdet = float(np.linalg.slogdet(V)[1])
    backend = spec["minimizer"]
    labels = {backend, spec["type"]}
    _tol_check(f"{spec['type']} {spec.get('family', '')}", fit, names, p_hat, C, chi2, logdet, free, backend, asym=spec["asym"], labels=labels)
    offdiag = np.any(np.abs(V - np.diag(np.diag(V))) > 0)
    nontrivial = len(free) >= 2 and (offdiag or bool(spec["constraints"]) or bool(spec["fixed"]))
    if spec["fixed"]:
        labels.add("fixed")
        fi = sorted(names.index(nm) for nm in spec["fixed"])
        if len(fi) >= 2 and any(b - a > 1 for a, b in zip(fi, fi[1:])):
            labels.add("non_adjacent_fixed")
    if spec["constraints"]:
        labels.add("constraints")
    if offdiag:
        labels.add("correlated")
    return {"nontrivial": nontrivial, "labels": sorted(labels)}


# ---- multi-fit of two linear xy members sharing parameters --------------------------------------------

@st.composite
def strat_multi(draw, tier="quick"):
    mini = draw(st.sampled_from(["iminuit", "scipy"]))
    fams = draw(st.sampled_from([("line", "quad"), ("line", "line"), ("quad", "cubic"), ("const", "sincos"), ("line", "sincos")]))
    members = []
    for i, fam in enumerate(fams):
        m = draw(S.xy_spec(families=[fam], costs=("chi2",), n_sources=(1, 2), x_errors=False, model_sources=False, constraints=False, fixed=False, minimizers=(mini,),
                           permute_params=True))  # the position of a parameter in a member differs from its position in the combined list
        for s in m["sources"]:
            s["name"] = f"m{i}{s['name']}"
        members.append(m)
    # one common truth for shared names: regenerate the second member's data from the shared truth
    truth = dict(members[0]["truth"])
    for nm, v in members[1]["truth"].items():
        truth.setdefault(nm, v)
    return {"members": members, "truth": truth, "minimizer": mini, "fix": draw(st.one_of(st.none(), st.integers(0, 5))),
            "far": draw(st.lists(st.floats(-5, 5), min_size=4, max_size=4)),
            # a simple constraint declared on ONE member (an extra measurement row of the joint system) and an uncertainty shared by both members (same matrix in
            # all four blocks of the joint covariance; needs members of equal size: the longer one is cut)
            "mcon": draw(st.one_of(st.none(), st.fixed_dictionaries({"member": st.integers(0, 1), "par": st.integers(0, 3), "shift": st.floats(-1, 1), "unc": st.floats(0.05, 0.5)}))),
            "shared_rel": draw(st.one_of(st.none(), st.none(), st.floats(0.3, 1.5)))}


def run_multi(case):
    from .. import models

    kafe2 = fs.k("kafe2")
    members = case["members"]
    truth = case["truth"]
    refs = []
    shared_rel = case.get("shared_rel")
    if shared_rel is not None:
        n_min = min(len(m["x"]) for m in members)
        if n_min < max(len(models.family(m["family"]).params) for m in members) + 1:
            shared_rel = None
        else:
            for m in members:
                m["x"], m["y"] = m["x"][:n_min], m["y"][:n_min]
    for m in members:
        F = models.family(m["family"])
        x = np.asarray(m["x"], float)
        # data consistent with the shared truth (keep the generated noise)
        y_old0 = F.f(x, [m["truth"][nm] for nm in F.params])
        noise = np.asarray(m["y"], float) - y_old0
        m["y"] = [float(v) for v in F.f(x, [truth[nm] for nm in F.params]) + noise]
        refs.append(fs.Ref(m))
    names = []
    for r in refs:
        for nm in r.names:
            if nm not in names:
                names.append(nm)
    fixed = {}
    if case["fix"] is not None and len(names) >= 2:
        nm = names[case["fix"] % len(names)]
        fixed[nm] = truth[nm] * 1.05
    free = [nm for nm in names if nm not in fixed]
    # joint GLS
    Ws, ds, Vs = [], [], []
    for r in refs:
        W, b = r.fam.design(r.x)
        Wfull = np.zeros((r.n, len(names)))
        for j, nm in enumerate(r.fam.params):
            Wfull[:, names.index(nm)] = W[:, j]
        Ws.append(Wfull)
        ds.append(r.d - b)
        Vs.append(r.total_cov({nm: 1.0 for nm in r.names}))
    W = np.vstack(Ws)
    d = np.concatenate(ds)
    V = linalg.block_diag(*Vs)
    shared_err = None
    if shared_rel is not None:
        shared_err = float(shared_rel * min(m["sigma"] for m in members))
        n0 = refs[0].n
        V = V + np.kron(np.ones((2, 2)), np.eye(n0) * shared_err ** 2)
    n_data = len(d)
    mcon = case.get("mcon")
    con_name = None
    if mcon is not None:
        r_ = refs[mcon["member"]]
        con_name = r_.names[mcon["par"] % len(r_.names)]
        con_val = truth[con_name] * (1 + 0.2 * mcon["shift"]) + 0.05 * mcon["shift"]
        con_unc = float(mcon["unc"]) * (abs(truth[con_name]) + 0.1)
        row = np.zeros((1, len(names)))
        row[0, names.index(con_name)] = 1.0
        W = np.vstack([W, row])
        d = np.concatenate([d, [con_val]])
        V = linalg.block_diag(V, np.array([[con_unc ** 2]]))
    ev = np.linalg.eigvalsh(V)
    if ev.min() <= 0 or ev.max() / ev.min() > 1e6:
        raise Discard("ill-conditioned")
    if mcon is not None and con_name in fixed:
        # constraint on the fixed parameter: a constant, not declared at all here
        W, d, V = W[:-1], d[:-1], V[:-1, :-1]
        mcon = None
    for nm, v in fixed.items():
        d = d - W[:, names.index(nm)] * v
    fidx = [names.index(nm) for nm in free]
    Wf = W[:, fidx]
    Vi = np.linalg.inv(V)
    H = Wf.T @ Vi @ Wf
    if np.linalg.cond(H) > 1e8:
        raise Discard("ill-conditioned")
    Cf = np.linalg.inv(H)
    pf = Cf @ Wf.T @ Vi @ d
    res = d - Wf @ pf
    chi2 = float(res @ Vi @ res)
    p_hat = np.array([fixed[nm] if nm in fixed else pf[free.index(nm)] for nm in names])
    C = np.zeros((len(names), len(names)))
    C[np.ix_(fidx, fidx)] = Cf
    sd = np.sqrt(np.diag(C))
    with guard("build"):
        fits = [fs.build(m, apply_params=False) for m in members]
        if mcon is not None and con_name not in fixed:
            fits[mcon["member"]].add_parameter_constraint(con_name, con_val, con_unc)
        multi = kafe2.MultiFit(fits, minimizer=case["minimizer"])
        if shared_err is not None:
            multi.add_error(shared_err, fits=[0, 1], axis="y", name="shared_y")
    if list(multi.parameter_names) != names:
        raise Violation("multi-parameter-names", f"{multi.parameter_names} vs {names}")
    with guard("set/fix"):
        multi.set_parameter_values(**{nm: float(p_hat[i] + case["far"][i % 4] * sd[i]) for i, nm in enumerate(names) if nm in free})
        for nm, v in fixed.items():
            multi.fix_parameter(nm, v)
    with guard("do_fit"):
        multi.do_fit()
    logdet = float(np.linalg.slogdet(V[:n_data, :n_data])[1])  # the determinant term belongs to the data covariance, constraints add their chi2 only
    _tol_check("multi", multi, names, p_hat, C, chi2, logdet, free, case["minimizer"], asym=False)
    # every member reports the sub-blocks
    for r, f in zip(refs, fits):
        idx = [names.index(nm) for nm in r.names]
        with guard("member results"):
            pv = np.asarray(f.parameter_values, float)
            pe = np.asarray(f.parameter_errors, float)
            pc = np.asarray(f.parameter_cov_mat, float)
        if np.any(np.abs(pv - p_hat[idx]) > 0.03 * np.where(sd[idx] > 0, sd[idx], 1.0)):
            raise Violation("member-values", f"member {r.names}: {pv.tolist()} vs multi GLS {p_hat[idx].tolist()}")
        # the multi-fit's own matrix was judged against GLS above (with the conditioning-aware tolerance); the members must report its sub-blocks - an identity,
        # not a second numerical comparison with GLS at a fixed 1 % (that one failed once in a seed sweep, at 1.5 %, and did not even reproduce in a fresh process)
        with guard("multi results"):
            mC = np.asarray(multi.parameter_cov_mat, float)
            mE = np.asarray(multi.parameter_errors, float)
        sc = np.sqrt(np.outer(np.diag(C)[idx], np.diag(C)[idx]))
        if np.any(np.abs(pc - mC[np.ix_(idx, idx)]) > 1e-9 * sc + 1e-300) or np.any(np.abs(pe - mE[idx]) > 1e-9 * sd[idx] + 1e-300):
            raise Violation("member-covariance", f"member {r.names}: errors {pe.tolist()} cov {pc.tolist()} vs sub-block of the multi-fit's matrix {mC[np.ix_(idx, idx)].tolist()}")
    shared = len(names) < sum(len(r.names) for r in refs)
    return {"nontrivial": shared and len(free) >= 2, "labels": sorted({case["minimizer"], "shared" if shared else "disjoint"} | ({"fixed"} if fixed else set())
                                                                   | ({"member_constraint"} if mcon is not None else set()) | ({"shared_uncertainty"} if shared_err is not None else set()))}


SUBS = [
    Sub("single", lambda tier: strat_single(tier), run_single, quick=640, thorough=20000, about="xy / indexed linear fits vs closed-form GLS, both backends"),
    Sub("multi", lambda tier: strat_multi(tier), run_multi, quick=240, thorough=6000, about="two-member MultiFits with shared linear parameters vs joint GLS"),
]
