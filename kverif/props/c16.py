"""C16 - confidence level <-> sigma conversions are exact inverses matching chi2 quantiles.

Sub-checks:
  pure     histories on one ConfidenceLevel object (construct by cl/sigma/delta_nll, then set_*/read_* in any order) vs
           scipy.stats.chi2(n).cdf / the closed forms for n=1 (erf) and n=2 (1-exp(-s^2/2)); all comparisons in CL space.
  mono     strict monotonicity of sigma->cl and cl->sigma on sorted samples; tabulated 1/2/3 sigma values.
  contour  the confidence level handed to iminuit's mncontour for an s-sigma contour (observed by wrapping
           iminuit.Minuit.mncontour from the harness) equals 1-exp(-s^2/2); ContoursProfiler builds 2-d levels.
  arrows   arrow specs returned by profile(..., cl=..., low=..., high=..., arrows=True) on an analytic quadratic cost for
           both backends: y - y_min == sigma_i^2 with sigma_i = sqrt(chi2(1).ppf(central cl)), one-sided rule 2*cl-1,
           x at the analytic profile crossing, 'cl' label = outside probability.
"""
import importlib
import math

import numpy as np
from hypothesis import strategies as st

from ..core import Discard, Violation, guard
from ..runner import Sub

PROPERTY = "C16"
RULE = ("pure: construct + set/read histories on ConfidenceLevel over n in 1..50, sigma in (0, 8.3], cl in (0,1) with extra mass "
        "near 0 and 1; non-trivial = the history contains a setter after a read (cached conversion must be invalidated) or the "
        "value lies in a tail (cl<1e-6 or 1-cl<1e-9 or n>=10); arrows/contour: every generated case is non-trivial (fitted "
        "analytic 2-parameter cost with random correlation, random cl / low / high / sigma); distinct by hash of the case")
ASSUMPTIONS = [
    "reference: scipy.stats.chi2(n).cdf/ppf (and erf / 1-exp closed forms), not the incomplete-gamma calls used by the code",
    "comparisons are made in CL space with absolute tolerance 2e-15 + 1e-12*min(cl,1-cl) (the code computes CL = 1 - Q(n/2, s^2/2) "
    "in IEEE double, so 1 ulp of 1.0 is the inherent resolution; comparing in sigma space near CL->1 would be a false alarm)",
    "changing ndim on a live object is not generated (which of cl/sigma stays fixed is not documented)",
    "arrow x positions: analytic profile crossing of a quadratic cost, tolerance 2e-2 sigma (secant root finder over re-minimised profile points; measured worst case 3e-3 sigma with iminuit)",
]

ATOL = 2e-15


def _conf():
    import kafe2  # noqa

    return importlib.import_module("kafe2.core.confidence").ConfidenceLevel


def ref_cl(n, sigma):
    from scipy.stats import chi2

    return float(chi2(n).cdf(float(sigma) ** 2))


def _cl_close(a, b):
    return abs(a - b) <= ATOL + 1e-12 * min(abs(b), abs(1 - b))


# ---------------------------------------------------------------------------------------------------

_sigma = st.one_of(st.floats(0.01, 8.3), st.floats(1e-6, 0.1), st.floats(4.0, 8.3), st.sampled_from([1.0, 2.0, 3.0, 0.5, 5.0]))
_cl = st.one_of(
    st.floats(1e-3, 0.999),
    st.floats(-12, -3).map(lambda e: 10.0 ** e),
    st.floats(-15, -3).map(lambda e: 1.0 - 10.0 ** e).filter(lambda c: c < 1.0),
    st.sampled_from([0.6827, 0.9, 0.95, 0.9545, 0.99, 0.9973, 0.5]),
)
_dnll = st.one_of(st.floats(1e-6, 70.0), st.sampled_from([1.0, 4.0, 9.0, 0.5, 2.3, 2.30258]))


def _setter():
    return st.one_of(
        st.fixed_dictionaries({"op": st.just("set_sigma"), "v": _sigma}),
        st.fixed_dictionaries({"op": st.just("set_cl"), "v": _cl}),
        st.fixed_dictionaries({"op": st.just("set_delta_nll"), "v": _dnll}),
    )


def _bad_setter():
    # values outside the domain of the conversion (sigma <= 0, cl outside (0, 1), negative cost rise): if the assignment is refused, the object must go on
    # describing the level it described before
    return st.one_of(
        st.fixed_dictionaries({"op": st.just("bad_sigma"), "v": st.sampled_from([0.0, -1.0, -0.3])}),
        st.fixed_dictionaries({"op": st.just("bad_cl"), "v": st.sampled_from([0.0, 1.0, -0.1, 1.5])}),
        st.fixed_dictionaries({"op": st.just("bad_delta_nll"), "v": st.sampled_from([-1.0, -0.01])}),
    )


def strat_pure(tier):
    read = st.fixed_dictionaries({"op": st.sampled_from(["read_cl", "read_sigma", "read_delta_nll", "read_str"])})
    return st.fixed_dictionaries({
        "ndim": st.one_of(st.integers(1, 4), st.integers(1, 50)),
        "init": _setter(),
        "ops": st.lists(st.one_of(read, read, _setter(), read, read, _setter(), _bad_setter()), min_size=1, max_size=8),
    })


def run_pure(case):
    CL = _conf()
    n = case["ndim"]
    init = case["init"]
    kw = {"set_sigma": "sigma", "set_cl": "cl", "set_delta_nll": "delta_nll"}[init["op"]]
    with guard("construct"):
        obj = CL(n_dimensions=n, **{kw: init["v"]})
    # model: the last quantity that was set defines the state
    state = (init["op"], float(init["v"]))
    read_seen = False
    set_after_read = False
    tail = False
    rejected = False

    def expected():
        kind, v = state
        if kind == "set_sigma":
            return "sigma", v
        if kind == "set_delta_nll":
            return "sigma", math.sqrt(v)
        return "cl", v

    def check(where):
        nonlocal tail
        prim, v = expected()
        with guard("read"):
            cl, sigma, dnll = float(obj.cl), float(obj.sigma), float(obj.delta_nll)
        if not (0.0 <= cl <= 1.0) or not sigma > 0:
            raise Violation("range", f"{where}: n={n} cl={cl!r} sigma={sigma!r}")
        if prim == "sigma":
            if abs(sigma - v) > 1e-15 * v:
                raise Violation("sigma-kept", f"{where}: n={n} sigma set to {v!r} reads {sigma!r}")
            want = ref_cl(n, v)
            if not _cl_close(cl, want):
                raise Violation("cl-from-sigma", f"{where}: n={n} sigma={v!r}: cl={cl!r} but chi2({n}).cdf(sigma^2)={want!r} (diff {cl - want:.3g})")
        else:
            if abs(cl - v) > 1e-16:
                raise Violation("cl-kept", f"{where}: n={n} cl set to {v!r} reads {cl!r}")
            back = ref_cl(n, sigma)  # exact-inverse property, judged in CL space
            if not _cl_close(back, v):
                raise Violation("sigma-from-cl", f"{where}: n={n} cl={v!r}: sigma={sigma!r} but chi2({n}).cdf(sigma^2)={back!r} (diff {back - v:.3g})")
        # sigma <-> cl consistency of the object itself (its own inverse), whichever was primary
        if abs(dnll - sigma ** 2) > 4e-16 * sigma ** 2:
            raise Violation("delta_nll", f"{where}: delta_nll={dnll!r} != sigma^2={sigma ** 2!r}")
        if n == 1:
            want1 = math.erf(sigma / math.sqrt(2.0))
            if not _cl_close(cl, want1) and prim == "sigma":
                raise Violation("cl-1d-erf", f"{where}: sigma={sigma!r}: cl={cl!r} erf={want1!r}")
        if n == 2 and prim == "sigma":
            want2 = -math.expm1(-0.5 * sigma ** 2)
            if not _cl_close(cl, want2):
                raise Violation("cl-2d-closed-form", f"{where}: sigma={sigma!r}: cl={cl!r} 1-exp(-s^2/2)={want2!r}")
        if cl < 1e-6 or 1 - cl < 1e-9 or n >= 10:
            tail = True

    for i, op in enumerate(case["ops"]):
        k = op["op"]
        where = f"op {i} {k}"
        if k.startswith("bad_"):
            try:
                setattr(obj, k[4:], op["v"])
            except ValueError:
                rejected = True
                check(where + " (after the refused assignment)")
            else:
                raise Discard(f"{k[4:]} = {op['v']!r} is accepted (not one of the refusals this check relies on)")
        elif k.startswith("set_"):
            with guard("setter"):
                setattr(obj, k[4:], op["v"])
            state = (k, float(op["v"]))
            if read_seen:
                set_after_read = True
        elif k == "read_str":
            with guard("read"):
                s = str(obj) + obj.sigma_string + obj.cl_string + obj.cl_latex_string + obj.sigma_latex_string
            check(where)
            read_seen = True
        else:
            check(where)
            read_seen = True
    check("final")
    return {"nontrivial": set_after_read or tail or rejected, "labels": [lab for lab, f in (("set_after_read", set_after_read), ("tail", tail), ("refused_assignment", rejected)) if f]}


# ---------------------------------------------------------------------------------------------------

def strat_mono(tier):
    return st.fixed_dictionaries({
        "ndim": st.integers(1, 50),
        "sigmas": st.lists(st.floats(1e-3, 8.0), min_size=2, max_size=12, unique=True),
        "cls": st.lists(_cl, min_size=2, max_size=12, unique=True),
    })


def run_mono(case):
    CL = _conf()
    n = case["ndim"]
    ss = sorted(case["sigmas"])
    with guard("construct"):
        cls = [float(CL(n, sigma=s).cl) for s in ss]
    refs = [ref_cl(n, s) for s in ss]
    for (s0, c0, r0), (s1, c1, r1) in zip(zip(ss, cls, refs), zip(ss[1:], cls[1:], refs[1:])):
        if c1 < c0 - 4 * np.spacing(c0):  # monotone up to the last bits of the incomplete gamma function (scipy)
            raise Violation("monotone-cl", f"n={n}: cl({s1})={c1!r} < cl({s0})={c0!r}")
        if r1 - r0 > 1e-13 and not c1 > c0:
            raise Violation("strictly-monotone-cl", f"n={n}: cl({s1})={c1!r} !> cl({s0})={c0!r}")
    cs = sorted(case["cls"])
    with guard("construct"):
        sig = [float(CL(n, cl=c).sigma) for c in cs]
    for (c0, s0), (c1, s1) in zip(zip(cs, sig), zip(cs[1:], sig[1:])):
        if s1 < s0:
            raise Violation("monotone-sigma", f"n={n}: sigma({c1})={s1!r} < sigma({c0})={s0!r}")
        if (c1 - c0) > 1e-13 * max(c1, 1e-3) and (c1 - c0) > 1e-14 and not s1 > s0:
            raise Violation("strictly-monotone-sigma", f"n={n}: sigma({c1})={s1!r} !> sigma({c0})={s0!r}")
    # tabulated one-dimensional values
    for s, pct in ((1, 68.27), (2, 95.45), (3, 99.73)):
        got = 100.0 * float(CL(1, sigma=s).cl)
        if abs(got - pct) > 0.005:
            raise Violation("tabulated", f"{s} sigma -> {got!r} %, documented {pct} %")
        back = float(CL(1, cl=pct / 100.0).sigma)
        if abs(back - s) > 2e-3:
            raise Violation("tabulated", f"{pct} % -> {back!r} sigma, documented {s}")
    return {"nontrivial": True, "labels": ["n>=10"] if n >= 10 else []}


# ---------------------------------------------------------------------------------------------------
# fitted analytic problems

def _minimizer(backend, mu, sig, rho, offset, errordef=1.0):
    import kafe2  # noqa

    if backend == "iminuit":
        cls = importlib.import_module("kafe2.core.minimizers.iminuit_minimizer").MinimizerIMinuit
    else:
        cls = importlib.import_module("kafe2.core.minimizers.scipy_optimize_minimizer").MinimizerScipyOptimize
    C = np.array([[sig[0] ** 2, rho * sig[0] * sig[1]], [rho * sig[0] * sig[1], sig[1] ** 2]])
    A = np.linalg.inv(C)

    def cost(a, b):
        d = np.array([a - mu[0], b - mu[1]])
        return float(d @ A @ d) + offset

    m = cls(["a", "b"], [mu[0] + 0.7 * sig[0], mu[1] - 0.4 * sig[1]], [0.5 * sig[0], 0.5 * sig[1]], cost)
    return m, C


_quad = st.fixed_dictionaries({
    "mu": st.tuples(st.floats(-5, 5), st.floats(-5, 5)),
    "sig": st.tuples(st.floats(0.05, 5), st.floats(0.05, 5)),
    "rho": st.floats(-0.9, 0.9),
    "offset": st.floats(-20, 20),
    "backend": st.sampled_from(["iminuit", "scipy"]),
})


def strat_contour(tier):
    return st.fixed_dictionaries({"quad": _quad.map(lambda q: dict(q, backend="iminuit")), "sigma": st.one_of(st.floats(0.3, 3.0), st.sampled_from([1.0, 2.0])),
                                  "via": st.sampled_from(["minimizer", "profiler"]), "model": st.sampled_from(["linear_model", "quadratic_model", "cubic_model"])})


def run_contour(case):
    import iminuit

    q = case["quad"]
    s = float(case["sigma"])
    seen = []
    orig = iminuit.Minuit.mncontour

    def spy(self, *a, **kw):
        seen.append(kw.get("cl"))
        return orig(self, *a, **kw)

    iminuit.Minuit.mncontour = spy
    try:
        if case["via"] == "minimizer":
            m, C = _minimizer("iminuit", q["mu"], q["sig"], q["rho"], q["offset"])
            with guard("minimize"):
                m.minimize()
            with guard("contour"):
                cont = m.contour("a", "b", sigma=s, numpoints=12)
            # the points of the contour lie where the cost has risen by s^2 (quadratic cost: profile == slice through the ellipse)
            if cont is not None:
                A = np.linalg.inv(C)
                xy = np.array(cont.xy_points) if hasattr(cont, "xy_points") else None
                if xy is not None and xy.ndim == 2 and xy.shape[0] == 2:
                    d = xy - np.array(q["mu"])[:, None]
                    rise = np.einsum("ik,ij,jk->k", d, A, d)
                    if np.max(np.abs(rise - s * s)) > 0.05 * s * s + 1e-3:
                        raise Violation("contour-level", f"sigma={s}: cost rise on contour points {rise.min():.4g}..{rise.max():.4g}, expected {s * s:.4g}")
        else:
            import kafe2

            x = np.arange(6.0)
            y = q["mu"][0] * x + q["mu"][1] + np.array([0.3, -0.2, 0.1, -0.4, 0.25, -0.05]) * q["sig"][0]
            # the two-parameter contour level does not depend on how many parameters the model has
            fit = kafe2.XYFit([x, y], case.get("model", "linear_model"))
            fit.add_error("y", q["sig"][0])
            with guard("do_fit"):
                fit.do_fit()
            two = case.get("model", "linear_model") != "cubic_model"  # two levels at once, with a dictionary of method options that the caller keeps
            s2 = s + 0.75
            mk = {"numpoints": 10} if two else None
            cpf = kafe2.ContoursProfiler(fit, contour_sigma_values=(s, s2) if two else (s,), contour_points=12, contour_method_kwargs=mk)
            with guard("get_contours"):
                conts = cpf.get_contours(*fit.parameter_names[:2])
            lv = cpf._contour_kwargs["confidence_levels"][0]
            want = -math.expm1(-0.5 * s * s)
            if lv.ndim != 2 or not _cl_close(float(lv.cl), want):
                raise Violation("profiler-level", f"ContoursProfiler level for {s} sigma: ndim={lv.ndim} cl={lv.cl!r}, expected 2-d {want!r}")
            if two:
                if mk != {"numpoints": 10}:
                    raise Violation("profiler-method-kwargs-modified", f"the caller's contour_method_kwargs became {mk!r}")
                want_all = [-math.expm1(-0.5 * s * s), -math.expm1(-0.5 * s2 * s2)]
                if len(seen) != 2 or any(c is None or not _cl_close(float(c), w) for c, w in zip(seen, want_all)):
                    raise Violation("mncontour-cl-per-level", f"contours at {s} and {s2} sigma: cl values passed to mncontour {seen!r}, two-dimensional levels {want_all!r}")
                for (lvl, _c), w in zip(conts, want_all):
                    if not _cl_close(float(lvl.cl), w):
                        raise Violation("profiler-level", f"returned level object cl={lvl.cl!r}, expected {w!r}")
                seen[:] = seen[:1]
    finally:
        iminuit.Minuit.mncontour = orig
    want = -math.expm1(-0.5 * s * s)
    if not seen:
        raise Violation("mncontour-not-called", "contour() did not reach iminuit.mncontour")
    for cl in seen:
        if cl is None or not _cl_close(float(cl), want):
            raise Violation("mncontour-cl", f"{s}-sigma contour: cl passed to mncontour = {cl!r}, two-dimensional level is {want!r}")
    return {"nontrivial": True, "labels": [case["via"]] + ([case.get("model", "linear_model")] if case["via"] == "profiler" else [])}


def strat_arrows(tier):
    cl = st.one_of(st.floats(0.55, 0.995), st.sampled_from([0.6827, 0.9, 0.95, 0.99]))
    return st.fixed_dictionaries({
        "quad": _quad,
        "mode": st.sampled_from(["cl_central", "cl_central", "cl_high", "cl_low", "low_high", "low_only"]),
        "cls": st.lists(cl, min_size=1, max_size=3, unique=True),
        "lowk": st.lists(st.floats(0.3, 3.0), min_size=1, max_size=2),
        "highk": st.lists(st.floats(0.3, 3.0), min_size=1, max_size=2),
        "subtract_min": st.booleans(),
        "scalar": st.booleans(),
        "par": st.sampled_from(["a", "b"]),
    })


def run_arrows(case):
    from scipy.stats import chi2

    q = case["quad"]
    m, C = _minimizer(q["backend"], q["mu"], q["sig"], q["rho"], q["offset"])
    with guard("minimize"):
        m.minimize()
    pi = 0 if case["par"] == "a" else 1
    mu = float(q["mu"][pi])
    sd = float(np.sqrt(C[pi, pi]))
    mode = case["mode"]
    cls = list(case["cls"])
    low = [mu - k * sd for k in case["lowk"]]
    high = [mu + k * sd for k in case["highk"]]
    if case["scalar"]:
        cls, low, high = cls[:1], low[:1], high[:1]
    kw = {"arrows": True, "subtract_min": case["subtract_min"], "size": 5}

    def one(v):
        return v[0] if case["scalar"] else v

    if mode == "cl_central":
        kw["cl"] = one(cls)
    elif mode == "cl_high":
        kw["cl"], kw["high"] = one(cls), one(high)
    elif mode == "cl_low":
        kw["cl"], kw["low"] = one(cls), one(low)
    elif mode == "low_high":
        kw["low"], kw["high"] = one(low), one(high)
    elif mode == "low_only":
        kw["low"] = one(low)
    if "cl" not in kw:
        cls = [0.90, 0.95, 0.99]  # the default levels used when arrows are requested without cl
    with guard("profile"):
        prof, specs = m.profile(case["par"], **kw)
    y0 = 0.0 if case["subtract_min"] else float(q["offset"])
    if specs is None:
        raise Violation("arrows-missing", f"{q['backend']}: profile(arrows=True, {mode}) returned no arrow specs")
    exp = []  # (side, x, y - y0 i.e. cost rise, outside probability)
    if mode == "low_only":  # default levels, one-sided, on the side that was not specified
        for c in cls:
            s = math.sqrt(chi2(1).ppf(2 * c - 1))
            exp.append(("right", mu + s * sd, s * s, 1 - c))
    if mode in ("cl_central", "default_arrows"):
        for c in cls:
            s = math.sqrt(chi2(1).ppf(c))
            exp += [("left", mu - s * sd, s * s, (1 - c) / 2), ("right", mu + s * sd, s * s, (1 - c) / 2)]
    if mode == "cl_high":  # one-sided lower limits at confidence level cl
        for c in cls:
            s = math.sqrt(chi2(1).ppf(2 * c - 1))
            exp.append(("left", mu - s * sd, s * s, 1 - c))
    if mode == "cl_low":
        for c in cls:
            s = math.sqrt(chi2(1).ppf(2 * c - 1))
            exp.append(("right", mu + s * sd, s * s, 1 - c))
    if mode in ("low_high", "low_only", "cl_low"):
        for x in low:
            d = ((x - mu) / sd) ** 2
            exp.append(("left", x, d, (1 - chi2(1).cdf(d)) / 2))
    if mode in ("low_high", "cl_high"):
        for x in high:
            d = ((x - mu) / sd) ** 2
            exp.append(("right", x, d, (1 - chi2(1).cdf(d)) / 2))
    got = [(s["side"], float(s["x"]), float(s["y"]) - y0, float(s["cl"])) for s in specs]
    if len(got) != len(exp):
        raise Violation("arrows-count", f"{q['backend']} {mode}: {len(got)} arrows, expected {len(exp)}: got={got} expected={exp}")
    for e in exp:
        # match by side and nearest x
        cand = [g for g in got if g[0] == e[0]]
        if not cand:
            raise Violation("arrows-side", f"{q['backend']} {mode}: no {e[0]} arrow; got={got}")
        g = min(cand, key=lambda g: abs(g[1] - e[1]))
        if abs(g[1] - e[1]) > 2e-2 * sd:
            raise Violation("arrow-x", f"{q['backend']} {mode}: {e[0]} arrow at x={g[1]!r}, analytic crossing {e[1]!r} (sd={sd:.4g})")
        if abs(g[2] - e[2]) > 1e-3 + 1e-3 * e[2]:
            raise Violation("arrow-y", f"{q['backend']} {mode} subtract_min={case['subtract_min']}: {e[0]} arrow cost rise {g[2]!r}, expected sigma_i^2={e[2]!r}")
        if abs(g[3] - e[3]) > 1e-6 + 1e-3 * e[3]:
            raise Violation("arrow-cl", f"{q['backend']} {mode}: {e[0]} arrow labelled {g[3]!r}, outside probability is {e[3]!r}")
    # the minimizer is back at the optimum
    pv = np.asarray(m.parameter_values, float)
    if np.max(np.abs(pv - np.array(q["mu"])) / np.array(q["sig"])) > 2e-2:
        raise Violation("not-at-minimum-after-profile", f"{q['backend']}: parameter values {pv} after profile(), optimum {q['mu']}")
    return {"nontrivial": True, "labels": [mode, q["backend"]]}


SUBS = [
    Sub("pure", strat_pure, run_pure, quick=40000, thorough=1500000, about="set/read histories on ConfidenceLevel vs chi2.cdf in CL space"),
    Sub("mono", strat_mono, run_mono, quick=4000, thorough=100000, about="monotonicity + tabulated values"),
    Sub("contour", strat_contour, run_contour, quick=480, thorough=6000, about="cl handed to iminuit.mncontour / ContoursProfiler level"),
    Sub("arrows", strat_arrows, run_arrows, quick=1600, thorough=30000, about="arrow specs of profile(..., cl/low/high, arrows=True) on analytic quadratic cost"),
]


def extra(tier, seed):
    """thorough tier: coverage-guided campaign (atheris / libFuzzer) over the same strategy and oracle, see kverif/fuzz.py"""
    from ..fuzz import thorough_extra

    return thorough_extra(PROPERTY, [("pure", 40000, 16)], tier, seed)
