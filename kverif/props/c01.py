"""C01 - the reported cost equals the documented -2 ln L of exactly the declared inputs.

Generated: fit type x built-in cost identifier (every alias) x data x model family x sources (simple/matrix, abs/rel, data/model
reference, x/y axis, any correlation, enabled/disabled, any order incl. a model-referenced source first or only) x simple/matrix
constraints x parameter points.  Oracle: kverif.fitspec.Ref.cost (numpy reference written from the documentation).
Also: disabled source == never declared, and declaration order is irrelevant (metamorphic, same tolerance).
"""
import numpy as np
from hypothesis import strategies as st

from .. import fitspec as fs
from .. import strategies as S
from ..core import Discard, Violation, expect_round, guard
from ..runner import Sub

PROPERTY = "C01"
RULE = ("sub-check long: every case (20 or more points) counts as non-trivial; sub-check cost: fit specs over xy / indexed / hist / unbinned x all built-in cost identifiers; non-trivial = >= 2 enabled sources of different "
        "kinds, or a model-referenced / x-axis / matrix / relative source, or >= 1 constraint; distinct by hash of (type, cost identifier, "
        "source kinds+flags+order, constraint kinds)")
ASSUMPTIONS = [
    "reference cost: kverif/fitspec.py Ref.cost (Cholesky solve + log det), written from doc/src/parts/mathematical_foundations.rst",
    "x-uncertainties: projected with the analytic slope; the bound h^2/6 max|f'''| on kafe2's central difference (h = 0.01 sigma_x) is "
    "propagated into the tolerance (exactly zero for polynomials up to degree 2)",
    "cases whose total covariance is not positive definite or has cond > 1e6 are outside the quantifier and discarded",
    "Poisson-type identifiers get non-negative integer data and no sources; histogram fits use exact bin integration so that "
    "quadrature error (C13) does not leak in; model-relative sources on histogram fits are not generated (documented FIXME)",
]

ALL_COSTS = sorted(fs.CHI2_COV | fs.CHI2_POINTWISE | fs.CHI2_NOERR | fs.NLL_GAUSS | fs.NLLR_GAUSS | fs.NLL_POISSON | fs.NLLR_POISSON | fs.GA_COV | fs.GA_POINT)
XY_COSTS = [c for c in ALL_COSTS if c != "gauss_approximation_covariance_fast"]  # the xy table does not offer this identifier
POISSON_LIKE = fs.NLL_POISSON | fs.NLLR_POISSON
COUNT_DATA = POISSON_LIKE | fs.GA_COV | fs.GA_POINT


def _points():
    return st.lists(st.lists(st.floats(-1.0, 1.0), min_size=4, max_size=4), min_size=1, max_size=3)


@st.composite
def strat(draw, tier="quick"):
    t = draw(st.sampled_from(["xy", "xy", "xy", "indexed", "hist", "unbinned"]))
    if t == "xy":
        cost = draw(st.sampled_from(XY_COSTS))
        pois = cost in COUNT_DATA
        nsrc = (0, 0) if cost in POISSON_LIKE else ((0, 4) if cost in ("chi2",) or cost in fs.CHI2_NOERR else (1, 4))
        fams = ["const", "line", "expo", "gauss"] if pois else None
        spec = draw(S.xy_spec(families=fams, costs=(cost,), n_sources=nsrc, poisson_data=pois, fixed=False,
                              y_scales=(None, None, None, 1e-3, 1e-5, 1e-7, 1e3, 1e5)))
    elif t == "indexed":
        cost = draw(st.sampled_from(ALL_COSTS))
        pois = cost in COUNT_DATA
        nsrc = (0, 0) if cost in POISSON_LIKE else ((0, 4) if cost in ("chi2",) or cost in fs.CHI2_NOERR else (1, 4))
        spec = draw(S.indexed_spec(costs=(cost,), n_sources=nsrc, poisson_data=pois, fixed=False, nonlinear=True))
    elif t == "hist":
        cost = draw(st.sampled_from(ALL_COSTS))
        nsrc = (0, 0) if cost in POISSON_LIKE else ((0, 3) if cost in ("chi2",) or cost in fs.CHI2_NOERR else (1, 3))
        spec = draw(S.hist_spec(costs=(cost,), densities=("normal", "expon", "lin_density"), n_sources=nsrc, fixed=False))
    else:
        spec = draw(S.unbinned_spec(fixed=False))
    return {"spec": spec, "points": draw(_points()), "fit_between": draw(st.booleans()), "shuffle": draw(st.randoms(use_true_random=False)).random()}


def _strategy(tier):
    return strat(tier)


@st.composite
def strat_long(draw, tier="quick"):
    cost = draw(st.sampled_from(["chi2", "chi2", "chi2_covariance", "chi2_pointwise", "nll_gaussian", "gauss_approximation" if False else "chi2"]))
    spec = draw(S.xy_long_spec(costs=(cost,), n_points=(20, 120) if tier == "quick" else (20, 400)))
    return {"spec": spec, "points": draw(_points()), "fit_between": draw(st.booleans()), "shuffle": 0.5}


def _ensure_pd(spec):
    """make sure there is one enabled, absolute, non-degenerate y source on the data when the cost needs a covariance"""
    cid = spec["cost"]
    needs = cid in (fs.CHI2_COV | fs.CHI2_POINTWISE | fs.NLL_GAUSS | fs.NLLR_GAUSS) and cid != "chi2"
    return needs


def judge_cost(fit, ref, p, tag, implicit_no_errors=None):
    spec = ref.spec
    cid = spec["cost"]
    with np.errstate(all="ignore"):
        try:
            want = ref.cost(p, implicit_no_errors=implicit_no_errors)
        except np.linalg.LinAlgError:
            raise Discard("total covariance not positive definite")
    if not np.isfinite(want):
        raise Discard("reference cost not finite (outside the likelihood's support)")
    needs_cov = not (spec["type"] == "unbinned" or cid in POISSON_LIKE or cid in fs.CHI2_NOERR or (cid == "chi2" and not ref.has_sources()))
    factor = 1.0
    slope_tol = 0.0
    V = None
    if needs_cov:
        V = ref.total_cov(p)
        if cid in (fs.GA_COV | fs.GA_POINT):
            V = V + np.diag(ref.model(p))
        ev = np.linalg.eigvalsh(V)
        if ev.min() <= 0 or ev.max() / ev.min() > 1e6:
            raise Discard("total covariance not positive definite / cond > 1e6")
        factor = max(1.0, (ev.max() / ev.min()) / 1e3)
        if spec["type"] == "xy":
            Vx = ref.axis_cov("x", p)
            if np.any(Vx != 0):
                b = ref.slope_error_bound(p, np.sqrt(np.diag(Vx)))
                if np.any(b > 0):
                    base_slope = ref.slope
                    dev = 0.0
                    for i in np.nonzero(b > 0)[0]:
                        bi = np.zeros_like(b)
                        bi[i] = b[i]
                        ref.slope = lambda pp, _b=bi: base_slope(pp) + _b
                        try:
                            dev += abs(ref.cost(p, implicit_no_errors=implicit_no_errors) - want)
                        except np.linalg.LinAlgError:
                            dev = np.inf
                        finally:
                            ref.slope = base_slope
                    slope_tol = 2.0 * dev
                    if not np.isfinite(slope_tol):
                        raise Discard("slope bound too large")
    with guard("cost_function_value"):
        got = fit.cost_function_value
    got = float(got)
    scale = abs(want) + ref.n + abs(ref.constraint_cost(p))
    tol = factor * 1e-9 * scale + slope_tol
    if not abs(got - want) <= tol:
        raise Violation(f"cost[{spec['type']}:{_cost_class(cid)}]", f"{tag}: cost_function_value={got!r}, documented -2lnL={want!r} (diff {got - want:.3g}, tol {tol:.2g}); "
                        f"cost id {cid!r}, sources {[(s['name'], s['ref'], s.get('axis'), s['kind'], 'rel' if s['relative'] else 'abs', 'on' if s.get('enabled', True) else 'off') for s in spec['sources']]}, "
                        f"constraints {[c['kind'] for c in spec['constraints']]}, p={p}")
    if needs_cov:
        # also for the Gauss approximation: fit.total_cov_mat is the sum of the declared sources (the model values enter the cost, not this matrix); it is read
        # *after* the cost so that a cost evaluation that touches the cached matrix shows (seeded change C01-f)
        Vref = ref.total_cov(p)
        with guard("total_cov_mat"):
            Vg = fit.total_cov_mat
            Eg = fit.total_error
        sc = float(np.max(np.abs(Vref)))
        tolV = 1e-9 * (2 * np.abs(Vref)) + 1e-12 * sc
        if slope_tol > 0:
            sl = np.abs(ref.slope(p))
            Vx = np.abs(ref.axis_cov("x", p))
            b = ref.slope_error_bound(p, np.sqrt(np.diag(Vx)))
            tolV = tolV + 2.0 * Vx * (np.outer(sl, b) + np.outer(b, sl) + np.outer(b, b))
        from ..core import expect_abs
        expect_abs(f"total_cov_mat[{spec['type']}]", Vg, Vref, tolV, extra=tag)
        sd = np.sqrt(np.diag(Vref))
        expect_abs(f"total_error[{spec['type']}]", Eg, sd, np.diag(tolV) / np.maximum(sd, 1e-300) + 1e-12 * np.sqrt(sc), extra=tag)


def _cost_class(cid):
    for nm, grp in (("chi2cov", fs.CHI2_COV), ("chi2pt", fs.CHI2_POINTWISE), ("chi2noerr", fs.CHI2_NOERR), ("nllgauss", fs.NLL_GAUSS), ("nllrgauss", fs.NLLR_GAUSS),
                    ("poisson", fs.NLL_POISSON), ("poissonr", fs.NLLR_POISSON), ("gacov", fs.GA_COV), ("gapt", fs.GA_POINT)):
        if cid in grp:
            return nm
    return cid


def run(case):
    spec = case["spec"]
    ref = fs.Ref(spec)
    names = ref.names
    with guard(f"build[{spec['type']}]"):
        fit = fs.build(spec)
    tb = spec["truth"]
    labels = {spec["type"], _cost_class(spec["cost"])}
    srcs = spec["sources"]
    en = [s for s in srcs if s.get("enabled", True)]
    if srcs and srcs[0]["ref"] == "model":
        labels.add("model_source_first")
    if en and all(s["ref"] == "model" for s in en):
        labels.add("model_sources_only")
    if any(not s.get("enabled", True) for s in srcs):
        labels.add("disabled_source")
    kinds = {(s["kind"], s["ref"], s.get("axis"), s["relative"]) for s in en}
    nontrivial = len(kinds) >= 2 or any(s["ref"] == "model" or s.get("axis") == "x" or s["kind"] == "matrix" or s["relative"] for s in en) or bool(spec["constraints"])
    if spec["type"] == "xy" and len(spec["x"]) > 12:
        labels.add("many_points")
        nontrivial = True
    implicit = spec["cost"] == "chi2" and not srcs
    pts = []
    for k_, pt in enumerate(case["points"]):
        p = {nm: tb[nm] * (1 + 0.3 * pt[i % 4]) + 0.05 * pt[(i + 1) % 4] for i, nm in enumerate(names)}
        if spec["type"] in ("hist", "unbinned") and "sigma" in p:
            p["sigma"] = abs(p["sigma"]) + 0.2
        if "tau" in p:
            p["tau"] = abs(p["tau"]) + 0.2
        pts.append(p)
    # parameter points are handed over in ONE list / array object that is updated in place between the calls (a scan loop) for every second case
    how = ("fresh", "same_list", "fresh", "same_array")[len(case["points"][0]) and int(abs(case["points"][0][0]) * 1e6) % 4]
    pbuf = [0.0] * len(names) if how == "same_list" else (np.zeros(len(names)) if how == "same_array" else None)
    if pbuf is not None:
        labels.add("parameter_buffer_reused_in_place")
    for k_, p in enumerate(pts):
        with guard("set_parameter_values"):
            if pbuf is not None:
                pbuf[:] = [p[nm] for nm in names]
                fit.set_all_parameter_values(pbuf)
            else:
                fit.set_all_parameter_values([p[nm] for nm in names])
        judge_cost(fit, ref, p, f"point {k_} (before any fit)", implicit_no_errors=implicit)
        with guard("model"):
            m = fit.y_model if spec["type"] == "xy" else fit.model
        expect_round(f"model[{spec['type']}]", m, ref.model(p), extra=f"point {k_}", factor=1e3 if spec["type"] == "hist" else 1.0)
        if k_ == 0 and case["fit_between"]:
            try:
                fit.do_fit()
                labels.add("read_after_do_fit")
            except Exception:
                labels.add("do_fit_raised")  # convergence is C05/C06's subject; the cost at a given point is still defined
            with guard("set_parameter_values"):
                fit.set_all_parameter_values([p[nm] for nm in names])
            judge_cost(fit, ref, p, f"point {k_} (after do_fit, same parameters set again)", implicit_no_errors=implicit)
    # metamorphic: disabled == never declared; declaration order irrelevant
    if srcs:
        import random

        rnd = random.Random(int(case["shuffle"] * 1e9))
        twin = dict(spec)
        tw = [dict(s) for s in srcs if s.get("enabled", True)]
        rnd.shuffle(tw)
        twin["sources"] = tw
        if tw or spec["cost"] in ("chi2",):
            with guard("build-twin"):
                fit2 = fs.build(twin)
            p = pts[-1]
            fit2.set_all_parameter_values([p[nm] for nm in names])
            fit.set_all_parameter_values([p[nm] for nm in names])
            with guard("cost_function_value"):
                a, b = float(fit.cost_function_value), float(fit2.cost_function_value)
            if spec["cost"] == "chi2" and not tw:
                pass  # all sources disabled: singular total covariance, excluded by the property
            elif np.isfinite(a) and np.isfinite(b) and abs(a - b) > 1e-7 * (abs(a) + abs(b) + ref.n):
                raise Violation("disabled-or-reordered-sources", f"cost {a!r} with sources {[(s['name'], s.get('enabled', True)) for s in srcs]} vs {b!r} with only the enabled ones "
                                f"declared in order {[s['name'] for s in tw]}")
            labels.add("twin_checked")
    key = fs_key(spec)
    return {"nontrivial": nontrivial, "labels": sorted(labels), "key": key}


def fs_key(spec):
    from ..core import case_hash

    return case_hash([spec["type"], spec["cost"], [(s["kind"], s["ref"], s.get("axis"), s["relative"], s.get("enabled", True), s.get("rho")) for s in spec["sources"]],
                      [c["kind"] for c in spec["constraints"]], spec.get("family") or spec.get("density_name") or spec.get("n")])


SUBS = [
    Sub("cost", _strategy, run, quick=4000, thorough=120000, about="cost_function_value / total_cov_mat / total_error / model vs numpy reference"),
    Sub("long", lambda tier: strat_long(tier), run, quick=480, thorough=12000, about="the same with many data points (20-120, thorough: -400) and any unit of y"),
]
