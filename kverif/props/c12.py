"""C12 - histogram filling counts every entry exactly once in half-open bins.

Generator: a pool of grid values; bin edges are ascending selections (with repetition) from the pool or an
n_bins+range / inner-edges constructor form; an op-list of fill(batch) / read(what) / rebin(edges).  Entries
are drawn from the *current* edges (exact hits), their nextafter neighbours, other pool values and free floats.
Oracle: independent reference binning (searchsorted, side=right) over the multiset of everything filled so far,
recomputed from scratch at every read; conservation; raw_data is a permutation of the filled multiset.
"""
import importlib
import itertools
import math

import numpy as np
from hypothesis import strategies as st

from ..core import Discard, Violation, expect_exact, guard, scribble
from ..runner import Sub

PROPERTY = "C12"
RULE = ("op-lists over fill/read/rebin on HistContainer built by any constructor form; non-trivial = at least one entry "
        "exactly on a bin edge or on a nextafter neighbour of one AND (a read placed between two fills, or a rebin after a "
        "fill, or a zero-width bin); distinct by hash of the whole case")
ASSUMPTIONS = [
    "entries and edges are finite floats (NaN/inf are outside the property's quantifier)",
    "reference binning = numpy.searchsorted(edges, e, side='right') (0: underflow, len(edges): overflow)",
    "set_bins() (manual heights) is not part of the filling property and is not generated",
]


def _hc():
    import kafe2  # noqa

    return importlib.import_module("kafe2.fit.histogram.container").HistContainer


# ---------------------------------------------------------------------------------------------------
# strategies

_grid_value = st.one_of(
    st.integers(-5, 5).map(float),
    st.floats(-10, 10, allow_nan=False, width=64),
    st.floats(-1e6, 1e6, allow_nan=False, width=64),
    st.sampled_from([0.1, 0.2, 0.30000000000000004, 0.3, 1e-9, -1e-9, 1e6, -1e6, 0.5, 1.5, 2.5]),
)

_entry = st.one_of(
    st.fixed_dictionaries({"k": st.just("edge"), "i": st.integers(0, 12), "n": st.sampled_from([0, 0, 0, -1, 1])}),
    st.fixed_dictionaries({"k": st.just("pool"), "i": st.integers(0, 12), "n": st.sampled_from([0, 0, -1, 1])}),
    st.fixed_dictionaries({"k": st.just("mid"), "i": st.integers(0, 12), "f": st.floats(0.0, 1.0)}),
    st.fixed_dictionaries({"k": st.just("val"), "v": st.floats(-1e6, 1e6, allow_nan=False, width=64)}),
)

_edge_sel = st.lists(st.integers(0, 12), min_size=2, max_size=9)


def _ops(tier):
    fill = st.fixed_dictionaries({
        "op": st.just("fill"),
        "entries": st.lists(_entry, min_size=0, max_size=8 if tier == "quick" else 20),
        "as": st.sampled_from(["list", "list", "array", "tuple", "scalar"]),
    })
    read = st.fixed_dictionaries({"op": st.just("read"),
                                  "what": st.sampled_from(["data", "underflow", "overflow", "n_entries", "raw_data", "all"])})
    rebin = st.fixed_dictionaries({"op": st.just("rebin"), "edges": _edge_sel})
    return st.lists(st.one_of(fill, fill, read, read, rebin), min_size=1, max_size=12 if tier == "quick" else 30)


def strategy(tier):
    ctor = st.one_of(
        st.fixed_dictionaries({"form": st.just("edges"), "edges": _edge_sel, "pass_n": st.booleans(), "pass_range": st.booleans()}),
        st.fixed_dictionaries({"form": st.just("inner"), "edges": st.lists(st.integers(0, 12), min_size=1, max_size=6)}),
        st.fixed_dictionaries({"form": st.just("nbins"), "n_bins": st.integers(1, 8), "lo": st.integers(0, 12), "hi": st.integers(0, 12)}),
    )
    return st.fixed_dictionaries({
        "pool": st.lists(_grid_value, min_size=2, max_size=8, unique=True),
        "ctor": ctor,
        "fill_data": st.one_of(st.none(), st.lists(_entry, max_size=6)),
        "reuse_buffers": st.booleans(),
        "ops": _ops(tier),
    })


# ---------------------------------------------------------------------------------------------------
# reference model

def ref_counts(edges, entries):
    edges = np.asarray(edges, dtype=float)
    n = len(edges) - 1
    counts = np.zeros(n, dtype=int)
    under = over = 0
    for e in entries:
        j = int(np.searchsorted(edges, e, side="right"))
        if j == 0:
            under += 1
        elif j == len(edges):
            over += 1
        else:
            counts[j - 1] += 1
    return under, counts, over


def _resolve_entry(e, pool, edges):
    k = e["k"]
    if k == "val":
        return float(e["v"])
    if k == "edge":
        v = float(edges[e["i"] % len(edges)])
    elif k == "pool":
        v = float(pool[e["i"] % len(pool)])
    else:  # mid: a point inside bin i
        i = e["i"] % (len(edges) - 1)
        lo, hi = float(edges[i]), float(edges[i + 1])
        return lo + (hi - lo) * float(e["f"])
    if e.get("n", 0) < 0:
        v = float(np.nextafter(v, -np.inf))
    elif e.get("n", 0) > 0:
        v = float(np.nextafter(v, np.inf))
    return v


def _edges_from_sel(sel, pool):
    sp = sorted(pool)
    return sorted(sp[i % len(sp)] for i in sel)


def run(case):
    HistContainer = _hc()
    pool = [float(p) for p in case["pool"]]
    sp = sorted(pool)
    c = case["ctor"]
    labels = set()
    # --- construct
    if c["form"] == "edges":
        edges = _edges_from_sel(c["edges"], pool)
        kw = {"bin_edges": list(edges)}
        if c.get("pass_n"):
            kw["n_bins"] = len(edges) - 1
        if c.get("pass_range"):
            kw["bin_range"] = (edges[0], edges[-1])
    elif c["form"] == "inner":
        inner = _edges_from_sel(c["edges"], pool)
        lo, hi = sp[0], sp[-1]  # encompasses every inner edge
        edges = [lo] + list(inner) + [hi]
        kw = {"bin_edges": list(inner), "n_bins": len(inner) + 1, "bin_range": (lo, hi)}
        labels.add("ctor_inner")
    else:
        lo, hi = sp[c["lo"] % len(sp)], sp[c["hi"] % len(sp)]
        if lo > hi:
            lo, hi = hi, lo
        if lo == hi:
            raise Discard("nbins form with empty range")
        edges = list(np.linspace(lo, hi, c["n_bins"] + 1))
        kw = {"n_bins": c["n_bins"], "bin_range": (lo, hi)}
        labels.add("ctor_nbins")
    edges = [float(x) for x in edges]
    filled = []
    if case.get("fill_data") is not None:
        fd = [_resolve_entry(e, pool, edges) for e in case["fill_data"]]
        kw["fill_data"] = list(fd)
        filled += fd
    with guard("construct"):
        h = HistContainer(**kw)
    reuse = bool(case.get("reuse_buffers"))
    if reuse:
        labels.add("caller_buffers_overwritten_after_each_call")
        scribble(kw.get("fill_data"))  # the caller's list lives on and is overwritten: what was filled are the values at the time of the call

    def zero_width(ed):
        return any(a == b for a, b in zip(ed[:-1], ed[1:]))

    on_edge = False
    fills_seen = 0
    read_after_fill = False
    nontrivial_seq = zero_width(edges)
    if zero_width(edges):
        labels.add("zero_width_bin")
    step = 0
    for op in case["ops"]:
        step += 1
        if op["op"] == "fill":
            ent = [_resolve_entry(e, pool, edges) for e in op["entries"]]
            for e, raw in zip(ent, op["entries"]):
                if raw["k"] in ("edge",) or any(e == x or e == np.nextafter(x, np.inf) or e == np.nextafter(x, -np.inf) for x in edges):
                    on_edge = True
            how = op["as"]
            if how == "scalar":
                labels.add("scalar_fill")
                with guard("fill"):
                    for e in ent:
                        h.fill(e)
            else:
                arg = list(ent) if how == "list" else (np.array(ent, dtype=float) if how == "array" else tuple(ent))
                if not ent:
                    labels.add("empty_fill")
                with guard("fill"):
                    h.fill(arg)
                if reuse:
                    scribble(arg)
            filled += ent
            if read_after_fill and ent:
                nontrivial_seq = True
                labels.add("read_between_fills")
            fills_seen += 1 if ent else 0
        elif op["op"] == "rebin":
            new_edges = [float(x) for x in _edges_from_sel(op["edges"], pool)]
            with guard("rebin"):
                h.rebin(list(new_edges))
            edges = new_edges
            if filled:
                nontrivial_seq = True
                labels.add("rebin_after_fill")
            if zero_width(edges):
                labels.add("zero_width_bin")
                nontrivial_seq = True
        else:
            what = op["what"]
            under, counts, over = ref_counts(edges, filled)
            whats = ["underflow", "overflow", "n_entries", "raw_data", "data"] if what == "all" else [what]
            for w in whats:
                with guard(f"read:{w}"):
                    got = getattr(h, w)
                tag = f"step {step}, edges={edges}, filled={sorted(filled)}"
                if w == "data":
                    expect_exact("data", np.asarray(got, dtype=float), counts.astype(float), tag)
                    if len(np.asarray(got)) != len(edges) - 1:
                        raise Violation("data-shape", tag)
                elif w == "underflow":
                    expect_exact("underflow", float(got), float(under), tag)
                elif w == "overflow":
                    expect_exact("overflow", float(got), float(over), tag)
                elif w == "n_entries":
                    expect_exact("n_entries", float(got), float(len(filled)), tag)
                else:
                    expect_exact("raw_data", sorted(float(x) for x in got), sorted(filled), tag)
            if what in ("underflow", "overflow"):
                labels.add("flow_read_first")
            if filled:
                read_after_fill = True
    # final full read: conservation + contents
    under, counts, over = ref_counts(edges, filled)
    with guard("read:final"):
        g_under, g_over, g_n, g_data = h.underflow, h.overflow, h.n_entries, h.data
    tag = f"final, edges={edges}, filled={sorted(filled)}"
    if float(g_under) + float(np.sum(g_data)) + float(g_over) != float(len(filled)):
        # conservation stated on its own so that a compensating pair of errors cannot hide
        raise Violation("conservation", f"under {g_under} + sum(data) {np.sum(g_data)} + over {g_over} != {len(filled)}; {tag}")
    with guard("read:final"):
        g_under, g_over, g_n, g_data = h.underflow, h.overflow, h.n_entries, h.data
    expect_exact("data", np.asarray(g_data, dtype=float), counts.astype(float), tag)
    expect_exact("underflow", float(g_under), float(under), tag)
    expect_exact("overflow", float(g_over), float(over), tag)
    expect_exact("n_entries", float(g_n), float(len(filled)), tag)
    if on_edge:
        labels.add("entry_on_edge")
    return {"nontrivial": bool(on_edge and nontrivial_seq), "labels": sorted(labels)}


SUBS = [
    Sub("ops", strategy, run, quick=16000, thorough=400000,
        about="op-lists fill/read/rebin vs reference binning recomputed from scratch at every read"),
]


# ---------------------------------------------------------------------------------------------------
# exhaustive small-alphabet enumeration (no Hypothesis): all ascending edge tuples x all entry tuples

def _enum_chunk(args):
    alphabet, edge_tuples, max_entries = args
    import warnings

    warnings.simplefilter("ignore")
    HistContainer = _hc()
    n = 0
    fails = []
    for ed in edge_tuples:
        for k in range(0, max_entries + 1):
            for ent in itertools.product(alphabet, repeat=k):
                n += 1
                h = HistContainer(bin_edges=list(ed))
                # split into two batches with a flow read in between (read order matters for lazy filling)
                h.fill(list(ent[: k // 2]))
                u0 = h.underflow
                h.fill(list(ent[k // 2:]))
                u, o, d = h.underflow, h.overflow, h.data
                ru, rc, ro = ref_counts(ed, ent)
                ru0 = ref_counts(ed, ent[: k // 2])[0]
                if not (u == ru and o == ro and np.array_equal(np.asarray(d, float), rc.astype(float)) and u0 == ru0):
                    if len(fails) < 3:
                        fails.append({"edges": list(ed), "entries": list(ent), "got": [float(u0), float(u), [float(x) for x in d], float(o)],
                                      "want": [ru0, ru, rc.tolist(), ro]})
    return n, fails


def extra(tier, seed):
    import multiprocessing

    if tier == "quick":
        alphabet, max_edges, max_entries = [0.0, 1.0, 2.0, 3.0, 1.5], 4, 3
    else:
        alphabet, max_edges, max_entries = [0.0, 1.0, 2.0, 3.0, 1.5, float(np.nextafter(2.0, 3)), -1.0], 4, 4
    alpha_sorted = sorted(alphabet)
    edge_tuples = []
    for ne in range(2, max_edges + 1):
        edge_tuples += list(itertools.combinations_with_replacement(alpha_sorted, ne))
    chunks = [(alphabet, edge_tuples[i::32], max_entries) for i in range(32)]
    ctx = multiprocessing.get_context("spawn")
    with ctx.Pool(16) as pool:
        res = pool.map(_enum_chunk, chunks)
    n = sum(r[0] for r in res)
    fails = [f for r in res for f in r[1]]
    out = {"exhaustive_small_alphabet_cases": n, "exhaustive_alphabet": alphabet, "exhaustive_max_edges": max_edges,
           "exhaustive_max_entries": max_entries, "evaluations": n, "distinct_nontrivial": 0, "failures": []}
    for f in fails[:1]:
        # express as a regular replayable case
        pool_vals = sorted(set(f["edges"]) | set(f["entries"]))
        if len(pool_vals) < 2:
            pool_vals = pool_vals + [pool_vals[-1] + 1.0]
        idx = {v: i for i, v in enumerate(pool_vals)}
        k = len(f["entries"])
        ent = [{"k": "pool", "i": idx[v], "n": 0} for v in f["entries"]]
        case = {"pool": pool_vals, "ctor": {"form": "edges", "edges": [idx[v] for v in f["edges"]], "pass_n": False, "pass_range": False},
                "fill_data": None,
                "ops": [{"op": "fill", "entries": ent[: k // 2], "as": "list"}, {"op": "read", "what": "underflow"},
                        {"op": "fill", "entries": ent[k // 2:], "as": "list"}, {"op": "read", "what": "all"}]}
        out["failures"].append({"sub": "ops", "case": case, "facet": "exhaustive-enumeration", "detail": str(f)})
    from ..fuzz import thorough_extra

    return thorough_extra(PROPERTY, [("ops", 30000, 16)], tier, seed, base=out)
