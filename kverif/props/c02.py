"""C02 - total uncertainty is the exact sum of enabled sources at the current reference.

A case = container kind + initial values + op-list over add_error / add_matrix_error / disable / enable / value changes /
reads (err, cov_mat, cor_mat, cov_mat_inverse, get_total_error; per axis for xy, with every documented axis spelling) /
toggle (disable+enable must restore the total bit for bit).
Oracle: numpy reference  V = sum_enabled (sigma sigma^T) o rho  with sigma = err or err * current values (signed),
matrix sources M or M o (v v^T); err = sqrt(diag V); cor = V / (s s^T); inverse consistent; symmetric; PSD.
"""
import importlib

import numpy as np
from hypothesis import strategies as st

from ..core import Discard, Violation, expect_exact, expect_round, guard, scribble
from ..runner import Sub

PROPERTY = "C02"
RULE = ("container kinds {indexed, xy, hist, unbinned, indexed-model, xy-model, hist-model} x op-lists (<=25 quick / <=60 thorough); "
        "non-trivial = a value change that happens after a read while a relative source is declared, followed by another read; or "
        "a disable/enable around a read; distinct by case hash")
ASSUMPTIONS = [
    "reference covariance assembled independently with numpy from the harness' own list of sources and current values",
    "relative sources use the signed current values (documented as (sigma sigma^T) o rho with sigma = relative size x value)",
    "histogram rebinning to a different number of bins while sources exist is not generated (no documented meaning)",
    "unbinned containers reject sources by design: only 'total covariance is the zero matrix' is checked",
    "values and uncertainties O(1e-2..1e2); inverse compared only when cond(V) <= 1e8",
]

N_MAX = 6


def _k(name):
    import kafe2  # noqa

    return importlib.import_module(name)


# model functions for the parametric-model kinds (linear in (a, b) so that values change visibly with the parameters)
_W = np.array([[1.0, 0.5], [-1.0, 2.0], [0.5, -1.5], [2.0, 1.0], [-0.5, -0.5], [1.5, 0.25]])


def _idx_model_factory(n):
    def idx_model(a=1.0, b=1.0):
        return _W[:n] @ np.array([a, b]) + 0.25
    return idx_model


def xy_model(x, a=1.0, b=1.0):
    return a * x + b + 0.1 * x ** 2


def hist_density(x, mu=0.0, sigma=1.0):
    return np.exp(-0.5 * ((x - mu) / sigma) ** 2) / np.sqrt(2.0 * np.pi * sigma ** 2)


# ---------------------------------------------------------------------------------------------------
# strategies

_val = st.one_of(st.floats(-50, 50).filter(lambda v: abs(v) > 1e-2), st.integers(-9, 9).filter(lambda v: v != 0).map(float))
_err = st.one_of(st.floats(0.01, 10.0), st.sampled_from([0.1, 1.0, 0.5]))


def _vec(elem):
    return st.lists(elem, min_size=N_MAX, max_size=N_MAX)


def _cor_matrix():
    # R = normalised L L^T from a random lower-triangular L (unit diagonal by construction)
    return st.lists(st.floats(-1, 1), min_size=N_MAX * N_MAX, max_size=N_MAX * N_MAX)


def strategy(tier):
    axis = st.sampled_from([0, 1, "0", "1", "x", "y", "X", "Y"])
    add_simple = st.fixed_dictionaries({
        "op": st.just("add_error"), "axis": axis, "scalar": st.booleans(), "err": _vec(_err), "zero_at": st.one_of(st.none(), st.integers(0, N_MAX - 1)),
        "rho": st.sampled_from([0.0, 0.0, 1.0, 0.5, 0.3, 0.99]), "relative": st.booleans()})
    add_matrix = st.fixed_dictionaries({
        "op": st.just("add_matrix_error"), "axis": axis, "form": st.sampled_from(["cov", "cor", "covariance", "correlation"]),
        "L": _cor_matrix(), "err": _vec(_err), "relative": st.booleans(),
        "f32": st.sampled_from([False, False, False, True])})  # an absolute covariance matrix handed over in single precision (its values are what they are; the sum stays double)
    toggle = st.fixed_dictionaries({"op": st.sampled_from(["disable", "enable", "toggle_check"]), "src": st.integers(0, 10)})
    change = st.fixed_dictionaries({"op": st.just("set_values"), "how": st.sampled_from(["data", "x", "y", "xy", "xy_T", "fill", "rebin", "params", "model_x"]),
                                    "values": _vec(_val), "values2": _vec(_val)})
    read = st.fixed_dictionaries({"op": st.just("read"), "what": st.sampled_from(["err", "cov_mat", "cor_mat", "cov_mat_inverse", "total_error", "all"]),
                                  "axis": axis})
    n_ops = 25 if tier == "quick" else 60
    # macro: the values change *while a source is disabled* and the source comes back afterwards (read, disable, change, enable, read).  As single
    # ops this five-step pattern is drawn in well under 1 % of the histories (seeded change C02-b lives exactly there); the macro is expanded
    # into plain ops, so cases, replays and shrinking are unchanged.
    masked = st.tuples(st.integers(0, 10), change, read, read).map(
        lambda t: [t[2], {"op": "disable", "src": t[0]}, t[1], {"op": "enable", "src": t[0]}, t[3]])
    one = st.one_of(add_simple, add_simple, add_matrix, toggle, change, change, read, read, read).map(lambda o: [o])
    return st.fixed_dictionaries({
        "kind": st.sampled_from(["indexed", "xy", "xy", "hist", "unbinned", "indexed_model", "xy_model", "hist_model"]),
        "n": st.integers(1, N_MAX),
        "values": _vec(_val), "values2": _vec(_val),
        "reuse_buffers": st.booleans(),  # the harness overwrites, in place, every array it has handed over (error vectors, matrices, new values)
        "ops": st.lists(st.one_of(one, one, one, one, one, one, one, masked), min_size=1, max_size=n_ops).map(lambda ll: [o for l in ll for o in l]),
    })


# ---------------------------------------------------------------------------------------------------

def _axis_id(a):
    return {"0": 0, "1": 1, "x": 0, "y": 1, 0: 0, 1: 1}[a.lower() if isinstance(a, str) else a]


class Harness:
    def __init__(self, case):
        self.case = case
        self.kind = k = case["kind"]
        self.n = n = case["n"]
        v = [float(x) for x in case["values"][:n]]
        v2 = [float(x) for x in case["values2"][:n]]
        self.two_axes = k in ("xy", "xy_model")
        self.sources = []  # dicts: name, axis, kind, err, rho, relative, M (cov) , enabled
        self.labels = set()
        if k == "indexed":
            self.c = _k("kafe2.fit.indexed.container").IndexedContainer(v)
            self.vals = {1: np.array(v)}
        elif k == "unbinned":
            self.c = _k("kafe2.fit.unbinned.container").UnbinnedContainer(v)
            self.vals = {1: np.array(v)}
        elif k == "xy":
            self.c = _k("kafe2.fit.xy.container").XYContainer(v, v2)
            self.vals = {0: np.array(v), 1: np.array(v2)}
        elif k == "hist":
            self.edges = np.arange(n + 1, dtype=float)
            self.entries = []
            self.c = _k("kafe2.fit.histogram.container").HistContainer(n_bins=n, bin_range=(0.0, float(n)))
            self._hist_fill([abs(x) % n for x in v])
        elif k == "indexed_model":
            self.params = [v[0] / 10.0, v2[0] / 10.0]
            self.f = _idx_model_factory(n)
            self.c = _k("kafe2.fit.indexed.model").IndexedParametricModel(self.f, list(self.params))
            self.vals = {1: self.f(*self.params)}
        elif k == "xy_model":
            self.params = [v[0] / 10.0, v2[0] / 10.0]
            self.x = np.array(v)
            self.c = _k("kafe2.fit.xy.model").XYParametricModel(self.x, xy_model, list(self.params))
            self.vals = {0: self.x.copy(), 1: xy_model(self.x, *self.params)}
        else:
            self.params = [v[0] / 25.0, 0.5 + abs(v2[0]) / 25.0]
            self.edges = np.linspace(-3.0, 3.0, n + 1)
            self.c = _k("kafe2.fit.histogram.model").HistParametricModel(n, (-3.0, 3.0), hist_density, list(self.params), bin_edges=list(self.edges),
                                                                         bin_evaluation="simpson")
            self.vals = {1: self._hist_model_vals()}

    def _hist_fill(self, entries):
        self.entries += [float(e) for e in entries]
        with guard("fill"):
            self.c.fill([float(e) for e in entries])
        self._hist_vals()

    def _hist_vals(self):
        cnt = np.zeros(self.n)
        for e in self.entries:
            j = int(np.searchsorted(self.edges, e, side="right"))
            if 0 < j < len(self.edges):
                cnt[j - 1] += 1
        self.vals = {1: cnt}

    def _hist_model_vals(self):
        e = self.edges
        a, b = e[:-1], e[1:]
        m = 0.5 * (a + b)
        f = lambda x: hist_density(x, *self.params)
        return (b - a) / 6.0 * (f(a) + 4 * f(m) + f(b))

    # ---- reference
    def ref_cov(self, axis):
        v = self.vals[axis]
        V = np.zeros((self.n, self.n))
        for s in self.sources:
            if s["axis"] != axis or not s["enabled"]:
                continue
            if s["kind"] == "simple":
                sig = s["err"] * v if s["relative"] else s["err"]
                R = (1.0 - s["rho"]) * np.eye(self.n) + s["rho"] * np.ones((self.n, self.n))
                V += np.outer(sig, sig) * R
            else:
                V += s["M"] * np.outer(v, v) if s["relative"] else s["M"]
        return V

    def has_relative(self):
        return any(s["relative"] for s in self.sources)

    # ---- reads
    def read(self, what, axis_spelling, tag):
        axes = [1] if not self.two_axes else [_axis_id(axis_spelling)]
        for ax in axes:
            V = self.ref_cov(ax)
            sd = np.sqrt(np.diag(V))
            scale = float(np.max(np.abs(V))) if V.size else 0.0
            whats = ["err", "cov_mat", "cor_mat", "cov_mat_inverse"] if what == "all" else [what]
            pre = ("x_" if ax == 0 else "y_") if self.two_axes else ""
            for w in whats:
                if w == "total_error":
                    with guard("read:get_total_error"):
                        te = self.c.get_total_error(axis_spelling) if self.two_axes else self.c.get_total_error()
                        got = te.cov_mat
                    expect_round(f"cov_mat[{self.kind}]", got, V, scale=scale, extra=tag)
                    continue
                with guard(f"read:{w}"):
                    got = getattr(self.c, pre + w)
                if w == "err":
                    expect_round(f"err[{self.kind}]", got, sd, scale=np.sqrt(scale), extra=tag)
                elif w == "cov_mat":
                    expect_round(f"cov_mat[{self.kind}]", got, V, scale=scale, extra=tag)
                    g = np.asarray(got, float)
                    if not np.array_equal(g, g.T):
                        raise Violation(f"symmetry[{self.kind}]", f"{tag}: total covariance is not symmetric")
                    ev = np.linalg.eigvalsh(0.5 * (g + g.T))
                    if ev.size and ev.min() < -1e-10 * max(ev.max(), 1e-300):
                        raise Violation(f"psd[{self.kind}]", f"{tag}: total covariance has eigenvalue {ev.min():.3g}")
                elif w == "cor_mat":
                    with np.errstate(all="ignore"):
                        want = V / np.outer(sd, sd)
                    expect_round(f"cor_mat[{self.kind}]", got, want, scale=1.0, extra=tag)
                else:
                    singular = (not np.all(np.isfinite(V))) or np.linalg.matrix_rank(V) < self.n
                    cond = np.linalg.cond(V) if not singular else np.inf
                    if got is None:
                        if not singular and cond < 1e8:
                            raise Violation(f"inverse[{self.kind}]", f"{tag}: inverse is None but V is regular (cond {cond:.3g})")
                    elif cond < 1e8:
                        prod = np.asarray(got, float) @ V
                        if not np.allclose(prod, np.eye(self.n), atol=1e-7 * max(1.0, cond / 1e3)):
                            raise Violation(f"inverse[{self.kind}]", f"{tag}: inverse @ V deviates from identity by {np.max(np.abs(prod - np.eye(self.n))):.3g}")


def _matrix_from(L_flat, err, n, form):
    L = np.tril(np.array(L_flat, float).reshape(N_MAX, N_MAX)[:n, :n])
    L[np.diag_indices(n)] = 1.0 + np.abs(L[np.diag_indices(n)])
    R = L @ L.T
    d = np.sqrt(np.diag(R))
    R = R / np.outer(d, d)
    R = 0.5 * (R + R.T)
    R[np.diag_indices(n)] = 1.0
    e = np.array(err[:n], float)
    return R, e, np.outer(e, e) * R


def run(case):
    h = Harness(case)
    n = h.n
    read_seen = False
    change_after_read_with_rel = False
    nontrivial = False
    toggle_around_read = False
    last_toggle_then_read = False
    for i, op in enumerate(case["ops"]):
        k = op["op"]
        tag = f"step {i} {k}"
        if k in ("add_error", "add_matrix_error"):
            if h.kind == "unbinned":
                continue
            ax = _axis_id(op["axis"]) if h.two_axes else 1
            name = f"s{len(h.sources)}"
            rel = bool(op["relative"])
            if k == "add_error":
                e = np.array(op["err"][:n], float)
                if op["scalar"]:
                    e = np.full(n, e[0])
                if op["zero_at"] is not None and not op["scalar"]:
                    e[op["zero_at"] % n] = 0.0
                    h.labels.add("zero_error_entry")
                arg = float(e[0]) if op["scalar"] else e.copy()
                with guard(f"add_error[{h.kind}]"):
                    if h.two_axes:
                        h.c.add_error(op["axis"], arg, name=name, correlation=op["rho"], relative=rel)
                    else:
                        h.c.add_error(arg, name=name, correlation=op["rho"], relative=rel)
                if case.get("reuse_buffers"):
                    scribble(arg)  # the caller's array is overwritten after the call: the declared source must not follow it
                h.sources.append({"name": name, "axis": ax, "kind": "simple", "err": e, "rho": float(op["rho"]), "relative": rel, "enabled": True})
            else:
                R, e, M = _matrix_from(op["L"], op["err"], n, op["form"])
                if op.get("f32") and not rel and not op["form"].startswith("cor"):
                    M = M.astype(np.float32)
                    M = 0.5 * (M + M.T)
                    M32 = M.copy()
                    M = M.astype(float)  # the reference works with exactly the numbers that were declared
                    h.labels.add("float32_matrix")
                else:
                    M32 = None
                with guard(f"add_matrix_error[{h.kind}]"):
                    kw = dict(name=name, relative=rel)
                    if op["form"].startswith("cor"):
                        args = (R.copy(), op["form"])
                        kw["err_val"] = e.copy()
                    else:
                        args = (M.copy() if M32 is None else M32, op["form"])
                    if h.two_axes:
                        h.c.add_matrix_error(op["axis"], *args, **kw)
                    else:
                        h.c.add_matrix_error(*args, **kw)
                if case.get("reuse_buffers"):
                    scribble(args[0])
                    scribble(kw.get("err_val"))
                h.sources.append({"name": name, "axis": ax, "kind": "matrix", "M": M, "relative": rel, "enabled": True})
                h.labels.add("matrix_source")
                if rel and h.two_axes and isinstance(op["axis"], str) and not op["axis"].isdigit():
                    h.labels.add("relative_matrix_on_named_axis")
            if rel:
                h.labels.add("relative_source")
        elif k in ("disable", "enable", "toggle_check"):
            if not h.sources:
                continue
            s = h.sources[op["src"] % len(h.sources)]
            if k == "toggle_check":
                ax = s["axis"]
                pre = ("x_" if ax == 0 else "y_") if h.two_axes else ""
                with guard("read:cov_mat"):
                    before = np.array(getattr(h.c, pre + "cov_mat"), float)
                with guard("disable_error"):
                    h.c.disable_error(s["name"]) if s["enabled"] else h.c.enable_error(s["name"])
                s["enabled"] = not s["enabled"]
                h.read("cov_mat", "xy"[ax] if h.two_axes else 1, tag + " (toggled)")
                with guard("enable_error"):
                    h.c.disable_error(s["name"]) if s["enabled"] else h.c.enable_error(s["name"])
                s["enabled"] = not s["enabled"]
                with guard("read:cov_mat"):
                    after = np.array(getattr(h.c, pre + "cov_mat"), float)
                if not np.array_equal(before, after, equal_nan=True):
                    raise Violation(f"toggle-restores[{h.kind}]", f"{tag}: disable+enable of {s['name']} changed the total covariance by {np.nanmax(np.abs(before - after)):.3g}")
                toggle_around_read = True
                h.labels.add("toggle_around_read")
            else:
                with guard(f"{k}_error"):
                    (h.c.disable_error if k == "disable" else h.c.enable_error)(s["name"])
                s["enabled"] = k == "enable"
                if read_seen:
                    last_toggle_then_read = True
                if k == "enable" and s.get("changed_while_disabled") and s.get("relative"):
                    h.labels.add("relative_source_reenabled_after_value_change")
                s["changed_while_disabled"] = False
        elif k == "set_values":
            how = op["how"]
            v = np.array(op["values"][:n], float)
            v2 = np.array(op["values2"][:n], float)
            done = False
            if h.kind == "indexed" and how in ("data", "x", "y"):
                with guard("set:data"):
                    buf = v.copy()
                    h.c.data = buf
                if case.get("reuse_buffers"):
                    scribble(buf)
                h.vals[1] = v
                done = True
            elif h.kind == "xy":
                if how == "x":
                    with guard("set:x"):
                        buf = v.copy()
                        h.c.x = buf
                    if case.get("reuse_buffers"):
                        scribble(buf)
                    h.vals[0] = v
                    done = True
                elif how in ("y", "data"):
                    with guard("set:y"):
                        buf = v2.copy()
                        h.c.y = buf
                    if case.get("reuse_buffers"):
                        scribble(buf)
                    h.vals[1] = v2
                    done = True
                elif how in ("xy", "xy_T") and (n != 2 or how == "xy"):
                    arr = np.array([v, v2])
                    with guard("set:data"):
                        h.c.data = arr.copy() if how == "xy" else arr.T.copy()
                    h.vals[0], h.vals[1] = v, v2
                    h.labels.add("xy_whole_data_replaced")
                    done = True
            elif h.kind == "hist":
                if how == "rebin":
                    shift = (abs(v[0]) % 1.0) * 0.5
                    h.edges = np.arange(n + 1, dtype=float) + shift
                    with guard("rebin"):
                        h.c.rebin(list(h.edges))
                    h._hist_vals()
                    h.labels.add("hist_rebin")
                    done = True
                elif how in ("fill", "data", "x", "y"):
                    h._hist_fill([abs(x) % (n + 0.5) for x in v[: 1 + int(abs(v2[0])) % n]])
                    h.labels.add("hist_fill")
                    done = True
            elif h.kind in ("indexed_model", "xy_model", "hist_model"):
                if how == "model_x" and h.kind == "xy_model":
                    with guard("set:model.x"):
                        h.c.x = v.copy()
                    h.x = v
                    h.vals[0] = v.copy()
                    h.vals[1] = xy_model(h.x, *h.params)
                    h.labels.add("model_x_changed")
                    done = True
                elif how in ("params", "data", "x", "y", "fill"):
                    if h.kind == "hist_model":
                        h.params = [v[0] / 25.0, 0.5 + abs(v2[0]) / 25.0]
                    else:
                        h.params = [v[0] / 10.0, v2[0] / 10.0]
                    with guard("set:parameters"):
                        if case.get("reuse_buffers"):
                            # one parameter list, updated in place and assigned again (not overwritten afterwards: the setter documents no copy)
                            if not hasattr(h, "pbuf"):
                                h.pbuf = list(h.params)
                            h.pbuf[:] = list(h.params)
                            h.c.parameters = h.pbuf
                        else:
                            h.c.parameters = list(h.params)
                    if h.kind == "indexed_model":
                        h.vals[1] = h.f(*h.params)
                    elif h.kind == "xy_model":
                        h.vals[1] = xy_model(h.x, *h.params)
                    else:
                        h.vals[1] = h._hist_model_vals()
                    h.labels.add("model_parameters_changed")
                    done = True
            if done:
                for s_ in h.sources:
                    if not s_["enabled"]:
                        s_["changed_while_disabled"] = True
            if done and read_seen and h.has_relative():
                change_after_read_with_rel = True
                h.labels.add("value_change_after_read_with_relative_source")
        else:
            if h.kind == "unbinned":
                with guard("read:cov_mat"):
                    got = h.c.cov_mat
                expect_exact("unbinned-total-is-zero", np.asarray(got, float), np.zeros((n, n)), tag)
                continue
            h.read(op["what"], op["axis"], tag)
            read_seen = True
            if change_after_read_with_rel or last_toggle_then_read:
                nontrivial = True
    # final sweep over everything
    if h.kind != "unbinned":
        for ax in ([0, 1] if h.two_axes else [1]):
            h.read("all", "xy"[ax] if h.two_axes else 1, "final")
        if change_after_read_with_rel or last_toggle_then_read:
            nontrivial = True
    if case.get("reuse_buffers"):
        h.labels.add("caller_buffers_overwritten_after_each_call")
    return {"nontrivial": nontrivial or toggle_around_read, "labels": sorted(h.labels | {h.kind})}


SUBS = [
    Sub("containers", strategy, run, quick=8000, thorough=200000, about="op-list histories on all container kinds vs numpy reference covariance"),
]


def extra(tier, seed):
    """thorough tier: coverage-guided campaign (atheris / libFuzzer) over the same strategy and oracle, see kverif/fuzz.py"""
    from ..fuzz import thorough_extra

    return thorough_extra(PROPERTY, [("containers", 20000, 16)], tier, seed)
