"""C19 - invalid specifications are rejected loudly and leave the object unchanged.

sources     containers (indexed / xy / histogram) and fits (xy / indexed / histogram, optionally fitted) with a generated valid history; then one
            malformed uncertainty specification derived from a valid one by a generated corruption (vector size off by +-k, one negative entry,
            negative scalar, correlation outside [0, 1] by a margin down to 1e-9, covariance matrix of the wrong size, correlation matrix with one
            diagonal entry != 1, correlation matrix with error vector of the wrong size, unknown source name at edit distance 1 in disable / enable /
            get_error).  The call must raise at the call; every observable is the same before and after; after a generated valid suffix (further
            source, toggle, parameter change, do_fit) the object equals a twin that never received the call.
parameters  fits with a valid history; malformed parameter-side calls: unknown parameter names in fix / release / limit / unlimit /
            set_parameter_values (alone and mixed with valid names) / add_parameter_constraint / add_matrix_parameter_constraint, value lists of
            the wrong length, constraint matrices that are non-symmetric in one entry, of the wrong shape, or correlation matrices without unit
            diagonal; replacement data that a Poisson likelihood cannot describe (one negative or non-integer entry).  Same oracle.
construct   constructors that must raise: containers with mismatching x / y sizes, unsorted bin edges (constructor and rebin), uncertainty objects and
            constraint objects with the malformations above, fits whose model function uses a reserved parameter name, fits with a Poisson likelihood
            on negative or non-integer data.
graph       generated DAGs of Parameter / Function / Tuple nodes in a Nexus; add_dependency with a *list* that contains valid entries before / after a
            cycle-closing one (cycle length 1..5), Nexus.add(existing_behavior='replace') with a node that would close a cycle, unknown names:
            must raise and leave values, children and parents of every node unchanged; after changing a parameter the graph equals its twin.
"""
import importlib
import math

import numpy as np
from hypothesis import strategies as st

from .. import fitspec as fs
from .. import models as M
from .. import strategies as S
from ..core import Discard, Violation, guard
from ..runner import Sub
from . import c03

PROPERTY = "C19"
RULE = ("generated valid object + history, one malformed call, generated valid suffix; non-trivial = the rejected call comes after at least one valid "
        "mutation and is followed by reads that are compared with the state before and with a twin object; distinct by case hash")
ASSUMPTIONS = [
    "only the malformations enumerated in the property are asserted to raise; any exception type counts as 'rejected loudly' (the type is recorded as a label)",
    "a size mismatch means a vector / matrix of at least 2 entries whose length differs from the number of data points (a length-1 vector may be read as a scalar)",
    "'outside [0, 1]' means by at least 1e-9, 'non-symmetric' by at least 1e-3 of the entry (an implementation that tolerates rounding noise still has the property)",
    "a correlation matrix 'without unit diagonal' deviates by at least 1e-3 in one diagonal entry (kafe2 documents a numerical tolerance on this test)",
    "state equality: all public read-only properties of the fit / the container observables used for C02 / C09, at rounding precision 1e-9",
]


def _k(name):
    import kafe2  # noqa

    return importlib.import_module(name)


# ---------------------------------------------------------------------------------------------------
# shared: corruptions of uncertainty specifications

BAD_SOURCE_KINDS = ["size", "negative_entry", "negative_scalar", "rho", "matrix_size", "cor_diag", "cor_errsize", "unknown_name"]


@st.composite
def bad_source(draw, kinds=BAD_SOURCE_KINDS):
    kind = draw(st.sampled_from(kinds))
    b = {"bad": kind, "k": draw(st.integers(1, 3)), "sign": draw(st.sampled_from([-1, 1])), "pos": draw(st.integers(0, 7)), "relative": draw(st.booleans()),
         "rho_margin": draw(st.sampled_from([1e-9, 1e-6, 1e-3, 0.5, 3.0])), "rho_side": draw(st.sampled_from(["below", "above"])),
         "diag_dev": draw(st.sampled_from([1e-3, -1e-3, 0.1, -0.5, 1.0])), "name_edit": draw(st.sampled_from(["append", "drop", "swapcase", "other"])),
         "via": draw(st.sampled_from(["disable", "enable", "get"])), "axis": draw(st.sampled_from(["x", "y"])), "reference": draw(st.sampled_from(["data", "model"])),
         "e": draw(st.floats(0.05, 0.5))}
    return b


def _edit_name(name, how):
    if how == "append":
        return name + "_"
    if how == "drop" and len(name) > 1:
        return name[:-1]
    if how == "swapcase" and name.swapcase() != name:
        return name.swapcase()
    if how.startswith("internal:"):
        return how.split(":", 1)[1]  # a name that exists inside the fit (a node of its computation graph) but is not one of its parameters
    return "no_such_" + name


def _bad_source_call(obj, b, n, xy, is_fit, names):
    """returns (description, thunk) for the malformed call on obj (container or fit)"""
    pre = (b["axis"],) if xy else ()
    kw = {}
    if is_fit:
        kw["reference"] = b["reference"]
    e = float(b["e"])
    kind = b["bad"]
    if kind == "size":
        m = n + b["k"] if (b["sign"] > 0 or n - b["k"] < 2) else n - b["k"]
        return f"add_error(vector of length {m} for {n} points)", lambda: obj.add_error(*pre, np.full(m, e), relative=b["relative"] and kw.get("reference") != "model", **kw)
    if kind == "negative_entry":
        v = np.full(n, e)
        v[b["pos"] % n] = -e
        return "add_error(vector with one negative entry)", lambda: obj.add_error(*pre, v, **kw)
    if kind == "negative_scalar":
        return "add_error(negative scalar)", lambda: obj.add_error(*pre, -e, **kw)
    if kind == "rho":
        mg = b["rho_margin"]
        if b["rho_side"] == "below":
            rho = math.nextafter(0.0, -1.0) if mg == "ulp" else -float(mg)
        else:
            rho = math.nextafter(1.0, 2.0) if mg == "ulp" else 1.0 + float(mg)
        return f"add_error(correlation={rho!r})", lambda: obj.add_error(*pre, e, correlation=rho, **kw)
    if kind == "matrix_size":
        m = n + b["k"] if (b["sign"] > 0 or n - b["k"] < 2) else n - b["k"]
        return f"add_matrix_error({m}x{m} covariance matrix for {n} points)", lambda: obj.add_matrix_error(*pre, np.eye(m) * e ** 2, "cov", **kw)
    if kind == "cor_diag":
        R = np.eye(n)
        R[b["pos"] % n, b["pos"] % n] = 1.0 + b["diag_dev"]
        return f"add_matrix_error(correlation matrix with diagonal entry {1.0 + b['diag_dev']!r})", lambda: obj.add_matrix_error(*pre, R, "cor", err_val=np.full(n, e), **kw)
    if kind == "cor_errsize":
        m = n + b["k"] if (b["sign"] > 0 or n - b["k"] < 2) else n - b["k"]
        return f"add_matrix_error(correlation matrix {n}x{n} with error vector of length {m})", lambda: obj.add_matrix_error(*pre, np.eye(n), "cor", err_val=np.full(m, e), **kw)
    # unknown name
    base = names[b["pos"] % len(names)] if names else "err"
    nm = _edit_name(base, b["name_edit"])
    while nm in names:
        nm += "_"
    if b["via"] == "disable":
        return f"disable_error({nm!r})", lambda: obj.disable_error(nm)
    if b["via"] == "enable":
        return f"enable_error({nm!r})", lambda: obj.enable_error(nm)
    if is_fit:
        return f"disable_error({nm!r})", lambda: obj.disable_error(nm)
    return f"get_error({nm!r})", lambda: obj.get_error(nm)


def _must_raise(tag, desc, thunk):
    """the call must raise; returns the exception type name"""
    try:
        thunk()
    except Exception as ex:  # noqa: any exception type counts as rejected
        return type(ex).__name__
    raise Violation(f"{tag}:accepted", f"{desc} did not raise")


# ---------------------------------------------------------------------------------------------------
# snapshots

def _snap_fit(fit):
    out = {}
    for nm in c03.observables(fit):
        try:
            v = getattr(fit, nm)
            if isinstance(v, np.ndarray):
                v = v.copy()
            out[nm] = ("v", v)
        except Exception as ex:  # noqa
            out[nm] = ("raises", type(ex).__name__)
    out["fixed_parameters"] = ("v", sorted((k_, float(v)) for k_, v in fit._fitter.fixed_parameters.items()))
    out["limited_parameters"] = ("v", sorted((k_, tuple(None if x is None else float(x) for x in v)) for k_, v in fit._fitter.limited_parameters.items()))
    out["n_constraints"] = ("v", len(fit.parameter_constraints))
    errs = fit.get_matching_errors()
    out["sources"] = ("v", sorted(errs))
    return out


def _snap_container(c, kind):
    out = {"data": ("v", np.asarray(c.data, float).copy()), "size": ("v", c.size)}
    if kind == "xy":
        out["x_cov"], out["y_cov"] = ("v", np.asarray(c.x_cov_mat, float).copy()), ("v", np.asarray(c.y_cov_mat, float).copy())
        out["x_err"], out["y_err"] = ("v", np.asarray(c.x_err, float).copy()), ("v", np.asarray(c.y_err, float).copy())
    else:
        out["cov"], out["err"] = ("v", np.asarray(c.cov_mat, float).copy()), ("v", np.asarray(c.err, float).copy())
    if kind == "hist":
        out["edges"], out["under"], out["over"] = ("v", np.asarray(c.bin_edges, float).copy()), ("v", float(c.underflow)), ("v", float(c.overflow))
        out["n_entries"] = ("v", float(c.n_entries))
    errs = c.get_matching_errors()
    out["sources"] = ("v", sorted((nm, bool(c.get_error(nm)["enabled"])) for nm in errs))
    return out


def _same(tag, a, b, what):
    for key in a:
        ka, va = a[key]
        kb, vb = b.get(key, ("missing", None))
        if ka != kb:
            raise Violation(f"{tag}:{what}:{key}", f"{key}: {ka} {va!r} vs {kb} {vb!r}")
        if ka == "raises":
            if va != vb:
                raise Violation(f"{tag}:{what}:{key}", f"{key}: raises {va} vs {vb}")
            continue
        if isinstance(va, (list, tuple, str, int)) and not isinstance(va, bool) and not (isinstance(va, (list, tuple)) and va and isinstance(va[0], (float, np.floating, np.ndarray))):
            if va != vb:
                raise Violation(f"{tag}:{what}:{key}", f"{key}: {va!r} vs {vb!r}")
            continue
        if not c03._values_equal(key, va, vb):
            raise Violation(f"{tag}:{what}:{key}", f"{key}: {_short(va)} vs {_short(vb)}")


def _short(v):
    try:
        return np.asarray(v, float).round(9).tolist()
    except Exception:  # noqa
        return repr(v)[:200]


# ---------------------------------------------------------------------------------------------------
# sources: containers and fits

def _valid_source_ops(draw, n, xy, is_fit, count):
    ops = []
    for i in range(count):
        kind = draw(st.sampled_from(["simple", "simple", "matrix", "toggle"]))
        if kind == "toggle" and ops:
            ops.append({"op": "toggle", "which": draw(st.integers(0, 7)), "enable": draw(st.booleans())})
            continue
        o = {"op": "add", "name": f"v{i}", "axis": draw(st.sampled_from(["x", "y"])) if xy else None, "e": draw(st.floats(0.05, 0.5)), "rho": draw(st.sampled_from([0.0, 0.0, 0.3, 1.0])),
             "relative": draw(st.booleans()), "matrix": kind == "matrix", "vector": draw(st.booleans()), "reference": draw(st.sampled_from(["data", "data", "model"])) if is_fit else "data",
             "scale": draw(st.lists(st.floats(0.5, 1.5), min_size=8, max_size=8))}
        ops.append(o)
    return ops


def _apply_source_op(obj, o, n, xy, is_fit, names):
    if o["op"] == "toggle":
        if not names:
            return
        nm = names[o["which"] % len(names)]
        (obj.enable_error if o["enable"] else obj.disable_error)(nm)
        return
    pre = (o["axis"],) if xy else ()
    kw = {"reference": o["reference"]} if is_fit else {}
    rel = o["relative"] and not (is_fit and o["reference"] == "model" and o["matrix"])
    sc = np.asarray(o["scale"][:n] if len(o["scale"]) >= n else np.resize(o["scale"], n), float)
    if o["matrix"]:
        e = o["e"] * sc
        R = np.full((n, n), 0.25) + 0.75 * np.eye(n)
        obj.add_matrix_error(*pre, np.outer(e, e) * R, "cov", name=o["name"], relative=rel, **kw)
    else:
        ev = o["e"] * sc if o["vector"] else o["e"]
        obj.add_error(*pre, ev, name=o["name"], correlation=o["rho"], relative=rel, **kw)
    names.append(o["name"])


@st.composite
def strat_sources(draw, tier="quick"):
    target = draw(st.sampled_from(["container_indexed", "container_xy", "container_hist", "fit_xy", "fit_indexed", "fit_hist"]))
    case = {"target": target, "bad": draw(bad_source())}
    is_fit = target.startswith("fit")
    xy = target.endswith("xy")
    if is_fit:
        t = target.split("_")[1]
        if t == "xy":
            spec = draw(S.xy_spec(families=["line", "quad", "expo"], costs=("chi2",), n_sources=(0, 0), constraints=False, fixed=False, min_points=4))
        elif t == "indexed":
            spec = draw(S.indexed_spec(costs=("chi2",), n_sources=(0, 0), constraints=False, fixed=False))
        else:
            spec = draw(S.hist_spec(costs=("chi2",), n_sources=(0, 0), constraints=False, fixed=False, bin_evaluations=("simpson",)))
        spec["sources"] = [{"name": "base", "ref": "data", "axis": "y" if t == "xy" else None, "kind": "simple", "scalar": True, "err": [spec.get("sigma", 1.5)] * 8, "rho": 0.0, "relative": False,
                            "enabled": True}]
        case["spec"] = spec
        n = len(spec["x"]) if t == "xy" else (spec["n"] if t == "indexed" else len(spec["edges"]) - 1)
        case["fit_before"] = draw(st.booleans())
    else:
        n = draw(st.integers(2, 6))
        case["values"] = draw(st.lists(st.one_of(st.floats(0.5, 10), st.floats(-10, -0.5)), min_size=n, max_size=n))
        case["entries"] = draw(st.lists(st.floats(-0.5, 6.5), min_size=0, max_size=15))
    case["n"] = n
    case["history"] = _valid_source_ops(draw, n, xy, is_fit, draw(st.integers(0, 3)))
    case["suffix"] = _valid_source_ops(draw, n, xy, is_fit, draw(st.integers(1, 2)))
    for i, o in enumerate(case["suffix"]):
        if o["op"] == "add":
            o["name"] = f"w{i}"
    case["suffix_fit"] = draw(st.booleans())
    case["suffix_values"] = draw(st.lists(st.floats(-0.3, 0.3), min_size=4, max_size=4))
    return case


def _build_source_target(case):
    kafe2 = _k("kafe2")
    target, n = case["target"], case["n"]
    if target.startswith("fit"):
        spec = dict(case["spec"], dea="nonlinear")
        fit = fs.build(spec)
        return fit, ["base"]
    if target == "container_indexed":
        return kafe2.IndexedContainer(case["values"]), []
    if target == "container_xy":
        return kafe2.XYContainer(np.cumsum(np.abs(case["values"])), case["values"]), []
    c = kafe2.HistContainer(n_bins=n, bin_range=(0.0, 6.0), fill_data=case["entries"])
    return c, []


def run_sources(case):
    target, n, b = case["target"], case["n"], case["bad"]
    is_fit, xy = target.startswith("fit"), target.endswith("xy")
    kind = "xy" if xy else ("hist" if target.endswith("hist") else "indexed")
    tag = f"{target}[{b['bad']}]"
    objs = []
    with guard(f"build[{target}]"):
        for _ in range(2):
            obj, names = _build_source_target(case)
            for o in case["history"]:
                _apply_source_op(obj, o, n, xy, is_fit, names)
            if is_fit and case["fit_before"]:
                try:
                    obj.do_fit()
                except Exception:  # noqa
                    raise Discard("do_fit failed on the valid history (C05/C06's subject)")
            objs.append((obj, list(names)))
    (A, names), (B, names_b) = objs
    snap = (lambda o: _snap_fit(o)) if is_fit else (lambda o: _snap_container(o, kind))
    with guard("reads before"):
        before = snap(A)
        snap(B)
    desc, thunk = _bad_source_call(A, b, n, xy, is_fit, names)
    exc = _must_raise(tag, desc, thunk)
    with guard("reads after the rejected call"):
        after = snap(A)
    _same(tag, before, after, f"state-changed-by-rejected[{desc.split('(')[0]}]")
    # valid suffix on both
    with guard("valid suffix"):
        for obj, nms in ((A, names), (B, names_b)):
            for o in case["suffix"]:
                _apply_source_op(obj, o, n, xy, is_fit, nms)
            if is_fit:
                vals = np.asarray(obj.parameter_values, float)
                obj.set_all_parameter_values([v * (1 + case["suffix_values"][j % 4]) for j, v in enumerate(vals)])
    if is_fit and case["suffix_fit"]:
        try:
            A.do_fit()
            B.do_fit()
        except Exception:  # noqa
            raise Discard("do_fit failed in the suffix (C05/C06's subject)")
    with guard("reads after the suffix"):
        sa, sb = snap(A), snap(B)
    _same(tag, sb, sa, "differs-from-twin-after-suffix")
    labels = {target, b["bad"], f"raises_{exc}"}
    return {"nontrivial": bool(case["history"]) or (is_fit and case["fit_before"]), "labels": sorted(labels)}


# ---------------------------------------------------------------------------------------------------
# parameters / constraints / data of fits

BAD_PARAM_KINDS = ["fix_unknown", "release_unknown", "limit_unknown", "unlimit_unknown", "set_unknown", "set_mixed", "set_all_length", "constraint_unknown", "matrix_constraint_unknown",
                   "matrix_constraint_asymmetric", "matrix_constraint_shape", "matrix_constraint_cor_diag", "matrix_constraint_lengths", "poisson_data"]


@st.composite
def strat_parameters(draw, tier="quick"):
    t = draw(st.sampled_from(["xy", "indexed", "hist"]))
    bad = draw(st.sampled_from(BAD_PARAM_KINDS))
    poisson = bad == "poisson_data"
    if poisson:
        t = draw(st.sampled_from(["xy", "indexed"]))
    if t == "xy":
        spec = draw(S.xy_spec(families=["line", "quad", "expo"], costs=("nll",) if poisson else ("chi2", "chi2_covariance"), n_sources=(0, 0 if poisson else 2), constraints=not poisson,
                              x_errors=not poisson, model_sources=not poisson, poisson_data=poisson, min_points=4))
    elif t == "indexed":
        spec = draw(S.indexed_spec(costs=("nll",) if poisson else ("chi2",), n_sources=(0, 0 if poisson else 2), poisson_data=poisson, constraints=not poisson))
    else:
        spec = draw(S.hist_spec(costs=("nll", "chi2"), n_sources=(0, 0), bin_evaluations=("simpson",)))
        if spec["cost"] == "chi2":
            spec["sources"] = [{"name": "base", "ref": "data", "axis": None, "kind": "simple", "scalar": True, "err": [1.5] * 8, "rho": 0.0, "relative": False, "enabled": True}]
    if not poisson and t != "hist" and not any(s["ref"] == "data" and (s.get("axis") or "y") == "y" and not s["relative"] and s.get("enabled", True) and s.get("rho", 0) < 1 and s["kind"] == "simple"
                                               for s in spec["sources"]):
        spec["sources"].insert(0, {"name": "base", "ref": "data", "axis": "y" if t == "xy" else None, "kind": "simple", "scalar": True, "err": [spec["sigma"]] * 8, "rho": 0.0, "relative": False,
                                   "enabled": True})
    return {"spec": spec, "bad": bad, "fit_before": draw(st.booleans()), "set_before": draw(st.booleans()), "pos": draw(st.integers(0, 7)), "k": draw(st.integers(1, 3)),
            "sign": draw(st.sampled_from([-1, 1])), "name_edit": draw(st.sampled_from(["append", "drop", "swapcase", "other", "internal:y_data", "internal:cost", "internal:total_error", "internal:parameter_values", "internal:model", "internal:data"])), "asym_eps": draw(st.sampled_from([1e-3, 0.1])), "mat_scale": draw(st.sampled_from([1.0, 1.0, 1e-4, 1e-8, 1e-12, 1e4])),
            "diag_dev": draw(st.sampled_from([1e-3, -1e-3, 0.1, -0.5])), "poisson_bad": draw(st.sampled_from(["negative", "non_integer"])), "mixed_first": draw(st.booleans()),
            "values": draw(st.lists(st.floats(-0.3, 0.3), min_size=4, max_size=4)), "suffix_fit": draw(st.booleans()), "data_as": draw(st.sampled_from(["array", "container"]))}


def _bad_param_call(fit, case, names, spec):
    bad = case["bad"]
    real = names[case["pos"] % len(names)]
    unk = _edit_name(real, case["name_edit"])
    while unk in names:
        unk += "_"
    npar = len(names)
    vals = [float(v) for v in fit.parameter_values]
    if bad == "fix_unknown":
        return f"fix_parameter({unk!r})", lambda: fit.fix_parameter(unk, 1.0)
    if bad == "release_unknown":
        return f"release_parameter({unk!r})", lambda: fit.release_parameter(unk)
    if bad == "limit_unknown":
        return f"limit_parameter({unk!r})", lambda: fit.limit_parameter(unk, -100.0, 100.0)
    if bad == "unlimit_unknown":
        return f"unlimit_parameter({unk!r})", lambda: fit.unlimit_parameter(unk)
    if bad == "set_unknown":
        return f"set_parameter_values({unk}=...)", lambda: fit.set_parameter_values(**{unk: 1.5})
    if bad == "set_mixed":
        other = vals[names.index(real)] * 1.1 + 0.1
        kw = {real: other, unk: 1.5} if case["mixed_first"] else {unk: 1.5, real: other}
        return f"set_parameter_values({', '.join(kw)}) with one unknown name", lambda: fit.set_parameter_values(**kw)
    if bad == "set_all_length":
        m = npar + case["k"] if (case["sign"] > 0 or npar - case["k"] < 1) else npar - case["k"]
        new = [v * 1.1 + 0.1 for v in (vals * 3)[:m]]
        return f"set_all_parameter_values({m} values for {npar} parameters)", lambda: fit.set_all_parameter_values(new)
    if bad == "constraint_unknown":
        return f"add_parameter_constraint({unk!r})", lambda: fit.add_parameter_constraint(unk, 1.0, 0.5)
    two = [real, names[(case["pos"] + 1) % len(names)]] if npar >= 2 else [real]
    kq = len(two)
    v2 = [1.0 + i for i in range(kq)]
    C = np.eye(kq) * 0.25
    if bad == "matrix_constraint_unknown":
        nm = list(two)
        nm[-1] = unk
        return f"add_matrix_parameter_constraint(names={nm})", lambda: fit.add_matrix_parameter_constraint(nm, v2, C)
    if bad == "matrix_constraint_asymmetric":
        if kq < 2:
            raise Discard("one parameter: a 1x1 matrix is always symmetric")
        Ca = C.copy()
        Ca[0, 1] = 0.05
        Ca[1, 0] = 0.05 + case["asym_eps"]
        Ca = Ca * case.get("mat_scale", 1.0)  # the unit of the parameters is arbitrary: the same relative asymmetry at any overall size of the matrix
        return f"add_matrix_parameter_constraint(matrix asymmetric by {case['asym_eps']} x {case.get('mat_scale', 1.0)})", lambda: fit.add_matrix_parameter_constraint(two, v2, Ca)
    if bad == "matrix_constraint_shape":
        m = kq + case["k"]
        return f"add_matrix_parameter_constraint({m}x{m} matrix for {kq} parameters)", lambda: fit.add_matrix_parameter_constraint(two, v2, np.eye(m) * 0.25)
    if bad == "matrix_constraint_cor_diag":
        R = np.eye(kq)
        R[0, 0] = 1.0 + case["diag_dev"]
        return f"add_matrix_parameter_constraint(correlation matrix with diagonal {1.0 + case['diag_dev']!r})", lambda: fit.add_matrix_parameter_constraint(two, v2, R, matrix_type="cor", uncertainties=[0.5] * kq)
    if bad == "matrix_constraint_lengths":
        return f"add_matrix_parameter_constraint({kq} names, {kq + 1} values)", lambda: fit.add_matrix_parameter_constraint(two, v2 + [1.0], np.eye(kq + 1) * 0.25)
    # poisson data
    kafe2 = _k("kafe2")
    d = np.asarray(spec["y"] if spec["type"] == "xy" else spec["data"], float).copy()
    j = case["pos"] % len(d)
    d[j] = -1.0 - d[j] if case["poisson_bad"] == "negative" else d[j] + 0.5
    as_int = case["poisson_bad"] == "negative" and case.get("pos", 0) % 2 == 1  # counts stored as integers (negative ones are just as impossible)
    if spec["type"] == "xy":
        new = [np.asarray(spec["x"], float), d]
        if case["data_as"] == "container":
            new = kafe2.XYContainer(np.round(new[0]).astype(int), np.round(new[1]).astype(int), dtype=int) if as_int else kafe2.XYContainer(new[0], new[1])
    else:
        new = (np.round(d).astype(int) if as_int else d) if case["data_as"] == "array" else (kafe2.IndexedContainer(np.round(d).astype(int), dtype=int) if as_int else kafe2.IndexedContainer(d))

    def thunk():
        fit.data = new
    return f"data = {case['poisson_bad']} entry for a Poisson likelihood ({case['data_as']})", thunk


def run_parameters(case):
    spec = dict(case["spec"], dea="nonlinear")
    tb = spec["truth"]
    spec["fixed"] = {nm: (tb[nm] if v is None else v) for nm, v in spec["fixed"].items()}
    names = fs.par_names(spec)
    tag = f"fit_{spec['type']}[{case['bad']}]"
    fits = []
    with guard(f"build[{spec['type']}]"):
        for _ in range(2):
            fit = fs.build(spec)
            if case["set_before"]:
                free = {nm: tb[nm] * (1 + case["values"][j % 4]) for j, nm in enumerate(names) if nm not in spec["fixed"]}
                fit.set_parameter_values(**free)
            if case["fit_before"]:
                try:
                    fit.do_fit()
                except Exception:  # noqa
                    raise Discard("do_fit failed on the valid history (C05/C06's subject)")
            fits.append(fit)
    A, B = fits
    with guard("reads before"):
        before = _snap_fit(A)
        _snap_fit(B)
    desc, thunk = _bad_param_call(A, case, names, spec)
    exc = _must_raise(tag, desc, thunk)
    with guard("reads after the rejected call"):
        after = _snap_fit(A)
    _same(tag, before, after, f"state-changed-by-rejected[{desc.split('(')[0].split(' ')[0]}]")
    with guard("valid suffix"):
        for fit in (A, B):
            free = {nm: float(v) * (1 + case["values"][(j + 1) % 4]) + 0.01 for j, (nm, v) in enumerate(zip(names, fit.parameter_values)) if nm not in fit._fitter.fixed_parameters}
            fit.set_parameter_values(**free)
    if case["suffix_fit"]:
        try:
            A.do_fit()
            B.do_fit()
        except Exception:  # noqa
            raise Discard("do_fit failed in the suffix (C05/C06's subject)")
    with guard("reads after the suffix"):
        sa, sb = _snap_fit(A), _snap_fit(B)
    _same(tag, sb, sa, "differs-from-twin-after-suffix")
    return {"nontrivial": bool(case["set_before"] or case["fit_before"]), "labels": sorted({spec["type"], case["bad"], f"raises_{exc}"})}


# ---------------------------------------------------------------------------------------------------
# constructors

CONSTRUCT_KINDS = ["xy_sizes", "hist_unsorted_edges", "hist_rebin_unsorted", "simple_error_negative", "simple_error_rho", "matrix_error_cor_diag", "matrix_error_cor_size",
                   "constraint_asymmetric", "constraint_shape", "constraint_cor_diag", "constraint_cor_range", "reserved_name", "poisson_fit_data"]


@st.composite
def strat_construct(draw, tier="quick"):
    n = draw(st.integers(3, 7))
    return {"kind": draw(st.sampled_from(CONSTRUCT_KINDS)), "n": n, "k": draw(st.integers(1, 3)), "sign": draw(st.sampled_from([-1, 1])), "pos": draw(st.integers(0, 7)),
            "values": draw(st.lists(st.floats(0.5, 9.5), min_size=n, max_size=n)), "gaps": draw(st.lists(st.floats(0.2, 2.0), min_size=n + 1, max_size=n + 1)),
            "margin": draw(st.sampled_from([1e-9, 1e-6, 1e-3, 0.5])), "side": draw(st.sampled_from(["below", "above"])), "diag_dev": draw(st.sampled_from([1e-3, -1e-3, 0.1, -0.5])),
            "asym_eps": draw(st.sampled_from([1e-3, 0.1])), "mat_scale": draw(st.sampled_from([1.0, 1.0, 1e-4, 1e-8, 1e-12, 1e4])), "fit_type": draw(st.sampled_from(["xy", "indexed", "hist"])), "reserved_index": draw(st.integers(0, 200)),
            "poisson_bad": draw(st.sampled_from(["negative", "non_integer"])), "entries": draw(st.lists(st.floats(0.0, 6.0), min_size=0, max_size=10)),
            "fill_first": draw(st.booleans())}


def run_construct(case):
    kafe2 = _k("kafe2")
    err = _k("kafe2.core.error")
    con = _k("kafe2.core.constraint")
    kind, n, pos = case["kind"], case["n"], case["pos"]
    v = np.asarray(case["values"], float)
    tag = f"construct[{kind}]"
    labels = {kind}
    nontrivial = False
    if kind == "xy_sizes":
        m = n + case["k"] if (case["sign"] > 0 or n - case["k"] < 1) else n - case["k"]
        exc = _must_raise(tag, f"XYContainer(x of length {n}, y of length {m})", lambda: kafe2.XYContainer(np.arange(n, dtype=float), np.arange(m, dtype=float)))
    elif kind in ("hist_unsorted_edges", "hist_rebin_unsorted"):
        edges = np.cumsum(case["gaps"])
        j = pos % n
        bad = edges.copy()
        bad[j], bad[j + 1] = bad[j + 1], bad[j]  # one inversion
        if kind == "hist_unsorted_edges":
            exc = _must_raise(tag, f"HistContainer(bin_edges with one inversion: {bad.tolist()})", lambda: kafe2.HistContainer(n_bins=n, bin_range=(float(bad[0]), float(bad[-1])), bin_edges=bad.tolist()))
        else:
            ent = [float(edges[0] + e_ / 6.0 * (edges[-1] - edges[0]) * 1.1 - 0.05) for e_ in case["entries"]]
            objs = []
            with guard("build hist"):
                for _ in range(2):
                    c = kafe2.HistContainer(n_bins=n, bin_range=(float(edges[0]), float(edges[-1])), bin_edges=edges.tolist(), fill_data=ent if case["fill_first"] else None)
                    if not case["fill_first"]:
                        c.fill(ent)
                    objs.append(c)
            A, B = objs
            with guard("reads before"):
                before = _snap_container(A, "hist")
                _snap_container(B, "hist")
            exc = _must_raise(tag, f"rebin(edges with one inversion: {bad.tolist()})", lambda: A.rebin(bad.tolist()))
            with guard("reads after"):
                after = _snap_container(A, "hist")
            _same(tag, before, after, "state-changed-by-rejected[rebin]")
            good = edges[::2] if len(edges[::2]) >= 2 and edges[::2][-1] == edges[-1] else np.array([edges[0], edges[-1]])
            with guard("valid suffix"):
                for c in (A, B):
                    c.fill([float(edges[0] + 0.5 * (edges[1] - edges[0]))])
                    c.rebin(good.tolist())
                sa, sb = _snap_container(A, "hist"), _snap_container(B, "hist")
            _same(tag, sb, sa, "differs-from-twin-after-suffix")
            nontrivial = True
    elif kind == "simple_error_negative":
        e = np.full(n, 0.3)
        e[pos % n] = -0.3
        exc = _must_raise(tag, "SimpleGaussianError(vector with one negative entry)", lambda: err.SimpleGaussianError(e, corr_coeff=0.0))
    elif kind == "simple_error_rho":
        mg = case["margin"]
        rho = (math.nextafter(0.0, -1.0) if mg == "ulp" else -float(mg)) if case["side"] == "below" else (math.nextafter(1.0, 2.0) if mg == "ulp" else 1.0 + float(mg))
        exc = _must_raise(tag, f"SimpleGaussianError(corr_coeff={rho!r})", lambda: err.SimpleGaussianError(0.3, corr_coeff=rho))
    elif kind == "matrix_error_cor_diag":
        R = np.eye(n)
        R[pos % n, pos % n] = 1.0 + case["diag_dev"]
        exc = _must_raise(tag, f"MatrixGaussianError(correlation matrix with diagonal {1.0 + case['diag_dev']!r})", lambda: err.MatrixGaussianError(R, "cor", err_val=np.full(n, 0.3)))
    elif kind == "matrix_error_cor_size":
        m = n + case["k"] if (case["sign"] > 0 or n - case["k"] < 2) else n - case["k"]
        exc = _must_raise(tag, f"MatrixGaussianError({n}x{n} correlation matrix, {m} errors)", lambda: err.MatrixGaussianError(np.eye(n), "cor", err_val=np.full(m, 0.3)))
    elif kind == "constraint_asymmetric":
        C = np.eye(n) * 0.25
        i, j = pos % n, (pos + 1) % n
        C[i, j] = 0.05
        C[j, i] = 0.05 + case["asym_eps"]
        C = C * case.get("mat_scale", 1.0)
        exc = _must_raise(tag, f"GaussianMatrixParameterConstraint(matrix asymmetric by {case['asym_eps']} x {case.get('mat_scale', 1.0)})", lambda: con.GaussianMatrixParameterConstraint(list(range(n)), v, C))
    elif kind == "constraint_shape":
        m = n + case["k"] if (case["sign"] > 0 or n - case["k"] < 1) else n - case["k"]
        exc = _must_raise(tag, f"GaussianMatrixParameterConstraint({m}x{m} matrix for {n} values)", lambda: con.GaussianMatrixParameterConstraint(list(range(n)), v, np.eye(m) * 0.25))
    elif kind == "constraint_cor_diag":
        R = np.eye(n)
        R[pos % n, pos % n] = 1.0 + case["diag_dev"]
        exc = _must_raise(tag, f"GaussianMatrixParameterConstraint(correlation matrix with diagonal {1.0 + case['diag_dev']!r})",
                          lambda: con.GaussianMatrixParameterConstraint(list(range(n)), v, R, matrix_type="cor", uncertainties=np.full(n, 0.3)))
    elif kind == "constraint_cor_range":
        R = np.eye(n)
        i, j = pos % n, (pos + 1) % n
        val = 1.5 if case["side"] == "above" else -1.5
        R[i, j] = R[j, i] = val
        exc = _must_raise(tag, f"GaussianMatrixParameterConstraint(correlation coefficient {val})", lambda: con.GaussianMatrixParameterConstraint(list(range(n)), v, R, matrix_type="cor", uncertainties=np.full(n, 0.3)))
    elif kind == "reserved_name":
        ft = case["fit_type"]
        cls = {"xy": kafe2.XYFit, "indexed": kafe2.IndexedFit, "hist": kafe2.HistFit}[ft]
        reserved = sorted(cls.RESERVED_NODE_NAMES)
        if not reserved:
            raise Discard("fit type without reserved names")
        nm = reserved[case["reserved_index"] % len(reserved)]
        if ft == "indexed":
            src = f"def model_r(a=1.0, {nm}=1.0):\n    return a + {nm} * np.arange({n})\n"
        else:
            src = f"def model_r(x, a=1.0, {nm}=1.0):\n    return a * x + {nm}\n"
        f = M.compile_function(src, "model_r")
        if ft == "xy":
            mk = lambda: kafe2.XYFit([np.arange(n, dtype=float), v], f)  # noqa: E731
        elif ft == "indexed":
            mk = lambda: kafe2.IndexedFit(v, f)  # noqa: E731
        else:
            mk = lambda: kafe2.HistFit(kafe2.HistContainer(n_bins=n, bin_range=(0.0, 6.0), fill_data=case["entries"]), f)  # noqa: E731
        exc = _must_raise(tag, f"{cls.__name__}(model function with parameter named {nm!r})", mk)
        labels.add(ft)
    else:  # poisson_fit_data
        d = np.round(v * 3)
        j = pos % n
        d[j] = -1.0 - d[j] if case["poisson_bad"] == "negative" else d[j] + 0.5
        ft = "xy" if case["fit_type"] == "xy" else "indexed"
        as_int = case["poisson_bad"] == "negative" and pos % 2 == 1  # counts handed over in an integer-typed container
        if ft == "xy":
            f = M.xy_function("line")[0]
            dat = kafe2.XYContainer(np.arange(n), d.astype(int), dtype=int) if as_int else [np.arange(n, dtype=float), d]
            mk = lambda: kafe2.XYFit(dat, f, cost_function="nll")  # noqa: E731
        else:
            f = M.indexed_function(n, 2)[0]
            dat = kafe2.IndexedContainer(d.astype(int), dtype=int) if as_int else d
            mk = lambda: kafe2.IndexedFit(dat, f, cost_function="nll")  # noqa: E731
        if as_int:
            labels.add("integer_dtype")
        exc = _must_raise(tag, f"{ft} fit with Poisson likelihood on data with a {case['poisson_bad']} entry", mk)
        labels.add(case["poisson_bad"])
    labels.add(f"raises_{exc}")
    return {"nontrivial": nontrivial, "labels": sorted(labels)}


# ---------------------------------------------------------------------------------------------------
# graphs

@st.composite
def strat_graph(draw, tier="quick"):
    n_par = draw(st.integers(1, 3))
    n_fun = draw(st.integers(2, 7))
    nodes = [{"name": f"p{i}", "kind": "par", "value": draw(st.integers(-5, 5))} for i in range(n_par)]
    for i in range(n_fun):
        kind = draw(st.sampled_from(["sum", "sum", "tuple", "prod"]))
        k = draw(st.integers(1, min(3, len(nodes))))
        deps = draw(st.lists(st.integers(0, len(nodes) - 1), min_size=k, max_size=k, unique=True))
        nodes.append({"name": f"f{i}", "kind": kind, "deps": [nodes[d]["name"] for d in deps]})
    return {"nodes": nodes, "how": draw(st.sampled_from(["add_dependency", "add_dependency", "add_dependency", "replace", "unknown_dependency", "unknown_node"])),
            "target": draw(st.integers(0, 50)), "closing": draw(st.integers(0, 50)), "valid_before": draw(st.integers(0, 2)), "valid_after": draw(st.integers(0, 2)),
            "valid_picks": draw(st.lists(st.integers(0, 50), min_size=4, max_size=4)), "reads_before": draw(st.booleans()), "new_value": draw(st.integers(6, 9)),
            "changed_par": draw(st.integers(0, 5))}


def _mk_graph(case):
    nx = _k("kafe2.core.fitters.nexus")
    g = nx.Nexus()
    calls = {}
    for nd in case["nodes"]:
        if nd["kind"] == "par":
            g.add(nx.Parameter(nd["value"], name=nd["name"]))
            continue
        deps = [g.get(d) for d in nd["deps"]]
        if nd["kind"] == "tuple":
            g.add(nx.Tuple(deps, name=nd["name"]))
            continue
        calls[nd["name"]] = 0

        def f(*args, _nm=nd["name"], _kind=nd["kind"]):
            calls[_nm] += 1
            flat = []

            def _flatten(a):
                if isinstance(a, (tuple, list)):
                    for b in a:
                        _flatten(b)
                else:
                    flat.append(a)
            _flatten(args)
            if _kind == "sum":
                return sum(flat)
            out = 1
            for x in flat:
                out *= x
            return out
        g.add(nx.Function(f, name=nd["name"], parameters=deps))
    return g, calls


def _snap_graph(g, case, read_values=True):
    out = {}
    for nd in case["nodes"]:
        node = g.get(nd["name"])
        out[nd["name"] + ".children"] = ("v", sorted(c.name for c in node.get_children()))
        out[nd["name"] + ".parents"] = ("v", sorted(p.name for p in node.get_parents() if p.name is not None and not p.name.startswith("__")))
        out[nd["name"] + ".type"] = ("v", type(node).__name__)
    if read_values:
        for nd in case["nodes"]:
            try:
                out[nd["name"] + ".value"] = ("v", g.get(nd["name"]).value)
            except Exception as ex:  # noqa
                out[nd["name"] + ".value"] = ("raises", type(ex).__name__)
    return out


def _descendants(case, name):
    """names that (transitively) depend on `name`, and `name` itself"""
    dep = {nd["name"]: set(nd.get("deps", [])) for nd in case["nodes"]}
    out = {name}
    changed = True
    while changed:
        changed = False
        for nm, ds in dep.items():
            if nm not in out and ds & out:
                out.add(nm)
                changed = True
    return out


def _ancestors(case, name):
    dep = {nd["name"]: set(nd.get("deps", [])) for nd in case["nodes"]}
    out, todo = set(), [name]
    while todo:
        for d in dep[todo.pop()]:
            if d not in out:
                out.add(d)
                todo.append(d)
    return out


def run_graph(case):
    nx = _k("kafe2.core.fitters.nexus")
    how = case["how"]
    tag = f"graph[{how}]"
    all_names = [nd["name"] for nd in case["nodes"]]
    funcs = [nd["name"] for nd in case["nodes"] if nd["kind"] != "par"]
    with guard("build graph"):
        (A, calls_a), (B, calls_b) = _mk_graph(case), _mk_graph(case)
    target = funcs[case["target"] % len(funcs)]
    desc_t = _descendants(case, target)  # target and everything that depends on it: adding any of these as a dependency of target closes a cycle
    closing = sorted(desc_t)[case["closing"] % len(desc_t)]
    valid_pool = [nm for nm in all_names if nm not in desc_t]
    if case["reads_before"]:
        with guard("reads before"):
            before = _snap_graph(A, case)
            _snap_graph(B, case)
    else:
        before = _snap_graph(A, case, read_values=False)
    if how == "add_dependency":
        picks = case["valid_picks"]
        pre = [valid_pool[picks[i] % len(valid_pool)] for i in range(case["valid_before"])] if valid_pool else []
        post = [valid_pool[picks[2 + i] % len(valid_pool)] for i in range(case["valid_after"])] if valid_pool else []
        deps = pre + [closing] + post
        arg = deps if len(deps) > 1 or case["valid_picks"][0] % 2 else deps[0]
        desc = f"add_dependency({target!r}, {arg!r}) where {closing!r} depends on {target!r}"
        exc = _must_raise(tag, desc, lambda: A.add_dependency(target, arg))
        label = f"cycle_len_{len(_chain(case, closing, target))}" + ("_valid_prefix" if pre else "")
    elif how == "replace":
        # a new node named like an ancestor-or-child position: replacing node `low` (a dependency of target's ancestors...) by a function of `high`
        anc = sorted(_ancestors(case, target))
        if not anc:
            raise Discard("target without dependencies")
        low = anc[case["closing"] % len(anc)]
        high = sorted(_descendants(case, low) - {low})[case["target"] % len(_descendants(case, low) - {low})]
        new = nx.Function(lambda x: x, name=low, parameters=[A.get(high)])
        twin_new = nx.Function(lambda x: x, name=low, parameters=[B.get(high)])  # noqa: F841 (kept alive: parents are weak references); the twin gets the same dangling (never added) node: constructing it registers it with `high`
        before = _snap_graph(A, case, read_values=case["reads_before"])
        desc = f"Nexus.add(Function {low!r} of {high!r}, existing_behavior='replace') where {high!r} depends on {low!r}"
        exc = _must_raise(tag, desc, lambda: A.add(new, existing_behavior="replace"))
        label = "replace_cycle"
    elif how == "unknown_dependency":
        pre = [valid_pool[case["valid_picks"][0] % len(valid_pool)]] if (valid_pool and case["valid_before"]) else []
        deps = pre + ["no_such_node"]
        desc = f"add_dependency({target!r}, {deps!r})"
        exc = _must_raise(tag, desc, lambda: A.add_dependency(target, deps))
        label = "unknown_dependency" + ("_valid_prefix" if pre else "")
    else:
        desc = "add_dependency('no_such_node', ...)"
        exc = _must_raise(tag, desc, lambda: A.add_dependency("no_such_node", all_names[0]))
        label = "unknown_node"
    with guard("reads after the rejected call"):
        after = _snap_graph(A, case, read_values=case["reads_before"])
    _same(tag, before, after, "state-changed-by-rejected")
    # suffix: change a parameter, read everything, compare with the twin (values and number of evaluations of the user functions)
    pars = [nd["name"] for nd in case["nodes"] if nd["kind"] == "par"]
    p = pars[case["changed_par"] % len(pars)]
    with guard("suffix"):
        if not case["reads_before"]:
            _snap_graph(A, case)
            _snap_graph(B, case)
        ca0, cb0 = dict(calls_a), dict(calls_b)
        A.get(p).value = case["new_value"]
        B.get(p).value = case["new_value"]
        sa, sb = _snap_graph(A, case), _snap_graph(B, case)
    _same(tag, sb, sa, "differs-from-twin-after-suffix")
    da = {k_: calls_a[k_] - ca0[k_] for k_ in calls_a}
    db = {k_: calls_b[k_] - cb0[k_] for k_ in calls_b}
    if da != db:
        raise Violation(f"{tag}:differs-from-twin-after-suffix:evaluations", f"after {desc} and {p} = {case['new_value']}: user functions evaluated {da}, in the twin {db}")
    return {"nontrivial": True, "labels": sorted({how, label, f"raises_{exc}"})}


def _chain(case, frm, to):
    """one dependency chain frm -> ... -> to (frm depends on to), as a list of names; [frm] if frm == to"""
    dep = {nd["name"]: list(nd.get("deps", [])) for nd in case["nodes"]}
    best = None
    stack = [[frm]]
    while stack:
        path = stack.pop()
        if path[-1] == to:
            if best is None or len(path) < len(best):
                best = path
            continue
        for d in dep[path[-1]]:
            if d not in path:
                stack.append(path + [d])
    return best or [frm]


SUBS = [
    Sub("sources", lambda tier: strat_sources(tier), run_sources, quick=1600, thorough=40000, about="malformed uncertainty specifications on containers and fits"),
    Sub("parameters", lambda tier: strat_parameters(tier), run_parameters, quick=1200, thorough=30000, about="malformed parameter / constraint / data calls on fits"),
    Sub("construct", lambda tier: strat_construct(tier), run_construct, quick=1600, thorough=30000, about="constructors that must reject"),
    Sub("graph", lambda tier: strat_graph(tier), run_graph, quick=3200, thorough=80000, about="cycle-closing and unknown dependencies in a Nexus"),
]


def extra(tier, seed):
    """thorough tier: coverage-guided campaign (atheris / libFuzzer) over the same strategy and oracle, see kverif/fuzz.py"""
    from ..fuzz import thorough_extra

    return thorough_extra(PROPERTY, [("graph", 20000, 8), ("sources", 10000, 8)], tier, seed)
