"""C06 - the reported optimum is a true local minimum within bounds; fixed values untouched; iterative = fixed point.

Generated: well-posed nonlinear problems (xy: exponential, power law, Gaussian / Lorentzian peak, sinusoid, logistic; histogram with
Poisson / Gauss-approximation costs; unbinned; nonlinear indexed maps), data simulated from the model, uncertainty configurations
incl. x-errors and model-relative errors, both dynamic-error algorithms, fixed / limited subsets (limits sometimes active), both backends.
Well-posedness is made operational with the *reference* cost: its minimum (Nelder-Mead polish from the truth) must have a positive
definite Hessian with cond <= 5e3 and lie within 4 reference sigma of the truth.
Checks: (1) no displaced point within the limits has a reference cost lower than at the reported optimum by more than 1e-3;
(2) both backends agree within 0.05 sigma; (3) fixed parameters keep exactly their values, limited ones stay inside the closed
interval; (4) iterative algorithm: a refit with the covariance frozen at the reported optimum does not move it (<= 0.1 sigma).
"""
import math

import numpy as np
from hypothesis import strategies as st
from scipy.optimize import minimize

from .. import fitspec as fs
from .. import strategies as S
from ..core import Discard, Violation, guard
from ..runner import Sub

PROPERTY = "C06"
RULE = ("well-posed nonlinear problems x uncertainty configurations x {nonlinear, iterative} x fixed/limited subsets x backends; non-trivial = "
        "parameter-dependent covariance (x-errors or model-relative source) or an active limit or a fixed parameter; distinct by case hash")
ASSUMPTIONS = [
    "the full, parameter-dependent cost is the numpy reference of C01 (analytic slope for x-errors)",
    "well-posed: reference minimum has PD Hessian with cond <= 5e3 and lies within 4 reference sigma of the truth; others discarded (rate reported)",
    "start values within +-5 % of the truth, frequency-like parameters +-1.5 % (documented usage: set initial values; farther away sinusoid/logistic surfaces are multi-modal)",
    "local-minimum slack 1e-3 in cost (iminuit stops at EDM < 2e-5; scipy tol 1e-6); backends agree within 0.05 sigma (measured 2e-3)",
    "with limits, displaced points are clipped to the closed interval; the check applies to the nonlinear algorithm and to all configurations "
    "without dynamic errors; the iterative algorithm is only required to be a fixed point",
]


def num_hessian(f, x, h):
    n = len(x)
    H = np.zeros((n, n))
    f0 = f(x)
    for i in range(n):
        for j in range(i, n):
            ei = np.zeros(n)
            ej = np.zeros(n)
            ei[i] = h[i]
            ej[j] = h[j]
            if i == j:
                H[i, i] = (f(x + ei) - 2 * f0 + f(x - ei)) / h[i] ** 2
            else:
                H[i, j] = H[j, i] = (f(x + ei + ej) - f(x + ei - ej) - f(x - ei + ej) + f(x - ei - ej)) / (4 * h[i] * h[j])
    return H


def ref_hessian(f, x):
    """careful reference Hessian: steps scaled to the *conditional* widths (stiff directions of correlated problems need small steps),
    Richardson extrapolation of two central-difference estimates; returns (H, relative instability)"""
    x = np.asarray(x, float)
    H1 = num_hessian(f, x, np.maximum(np.abs(x), 1e-3) * 1e-4)
    d = np.diag(H1)
    if np.any(~np.isfinite(d)) or np.any(d <= 0):
        return H1, np.inf
    sc = np.sqrt(2.0 / d)
    Ha = num_hessian(f, x, 0.05 * sc)
    Hb = num_hessian(f, x, 0.025 * sc)
    H = (4.0 * Hb - Ha) / 3.0
    norm = np.sqrt(np.outer(np.abs(np.diag(H)), np.abs(np.diag(H)))) + 1e-300
    return H, float(np.max(np.abs(H - Hb) / norm))


def reference_minimum(ref, spec, free, fixed_vals):
    names = ref.names
    tb = spec["truth"]

    def cost_free(v):
        p = dict(fixed_vals)
        p.update(dict(zip(free, v)))
        lim = spec.get("limits", {})
        for nm, (lo, hi) in lim.items():
            if nm in free and not (lo <= p[nm] <= hi):
                return 1e30
        try:
            with np.errstate(all="ignore"):
                c = ref.cost(p)
        except (np.linalg.LinAlgError, ValueError, FloatingPointError):
            return 1e30
        return c if np.isfinite(c) else 1e30

    x0 = np.array([tb[nm] for nm in free], float)
    lim = spec.get("limits", {})
    for i, nm in enumerate(free):
        if nm in lim:
            x0[i] = min(max(x0[i], lim[nm][0]), lim[nm][1])
    res = minimize(cost_free, x0, method="Nelder-Mead", options={"xatol": 1e-9, "fatol": 1e-11, "maxiter": 4000, "maxfev": 4000})
    res = minimize(cost_free, res.x, method="Nelder-Mead", options={"xatol": 1e-10, "fatol": 1e-12, "maxiter": 4000, "maxfev": 4000})
    return res.x, res.fun, cost_free


@st.composite
def strat(draw, tier="quick"):
    t = draw(st.sampled_from(["xy", "xy", "xy", "hist", "unbinned", "indexed", "xy_counts"]))
    if t == "xy_counts":
        # counts that scatter like counts around an exponential decay, Gaussian approximation of the Poisson likelihood, and an x uncertainty: the cost needs the
        # projected covariance, so the second (unfrozen) fit of the dynamic treatment applies to it exactly as to chi2
        A, tau = draw(st.floats(60.0, 300.0)), draw(st.floats(2.0, 6.0))
        n = draw(st.integers(7, 8))
        x = [0.5 + 5.5 * i / (n - 1) for i in range(n)]
        nz = draw(st.lists(st.floats(-1.3, 1.3), min_size=n, max_size=n))
        y0 = [A * math.exp(-xi / tau) for xi in x]
        y = [float(max(1.0, round(v + z * math.sqrt(v)))) for v, z in zip(y0, nz)]
        sx = draw(st.floats(0.05, 0.15))
        spec = {"type": "xy", "family": "expo", "order": ["A", "tau"], "x": x, "y": y, "truth": {"A": A, "tau": tau}, "cost": "gauss_approximation",
                "sources": [{"name": "xs", "ref": "data", "axis": "x", "kind": "simple", "scalar": True, "err": [sx] * 8, "rho": 0.0, "relative": False, "enabled": True}],
                "constraints": [], "start": {"A": A * (1 + 0.1 * draw(st.floats(-1, 1))), "tau": tau * (1 + 0.1 * draw(st.floats(-1, 1)))}, "fixed": {}, "limits": {},
                "minimizer": "iminuit", "dea": "nonlinear", "sigma": math.sqrt(A), "y_scale": None}
    elif t == "xy":
        spec = draw(S.xy_spec(families=S.NONLINEAR_FAMILIES, costs=("chi2",), n_sources=(1, 3), x_errors=True, model_sources=True, constraints=draw(st.booleans()),
                              fixed=True, limits=True, deas=("nonlinear", "nonlinear", "iterative"), min_points=7, model_only_first=0.0, noise_scale=0.7,
                              y_scales=(None, None, None, 1e-4, 1e3)))
        # make sure a plain absolute y source on the data exists (keeps V positive definite)
        if not any(s["ref"] == "data" and (s.get("axis") or "y") == "y" and not s["relative"] and s.get("enabled", True) and s.get("rho", 0) < 1 for s in spec["sources"]):
            spec["sources"].insert(0, {"name": "base", "ref": "data", "axis": "y", "kind": "simple", "scalar": True, "err": [spec["sigma"]] * 8, "rho": 0.0,
                                       "relative": False, "enabled": True})
    elif t == "hist":
        cost = draw(st.sampled_from(["nll", "nll", "gauss_approximation"]))
        spec = draw(S.hist_spec(costs=(cost,), densities=("normal", "expon"), n_sources=(0, 0), bin_evaluations=("antider",), n_entries=(60, 200)))
    elif t == "unbinned":
        spec = draw(S.unbinned_spec())
    else:
        spec = draw(S.indexed_spec(costs=("chi2",), n_sources=(1, 2), nonlinear=True, model_sources=True))
    return {"spec": spec, "dirs": draw(st.lists(st.lists(st.floats(-1, 1), min_size=4, max_size=4), min_size=10, max_size=10)),
            "limit_active": draw(st.sampled_from([False, False, True]))}


def run(case):
    spec = dict(case["spec"])
    tb = spec["truth"]
    ref = fs.Ref(spec)
    names = ref.names
    # start values: within +-5 % of the truth (frequency-like parameters +-1.5 %: farther away the surface is multi-modal, which the
    # property excludes as not well-posed)
    spec["start"] = {nm: tb[nm] + (v - tb[nm]) * (0.15 if nm in ("w", "k") else 0.5) for nm, v in spec["start"].items()}
    # optionally make a limit active: move the interval so that the truth lies outside
    if spec.get("limits") and case["limit_active"]:
        lim = {}
        for nm, (lo, hi) in spec["limits"].items():
            w = hi - lo
            # only amplitude-like parameters get an active limit: forcing a frequency / position / width away from the truth makes the
            # surface multi-modal (not well-posed)
            lim[nm] = [tb[nm] + 0.02 * w, tb[nm] + 0.02 * w + w] if nm in ("A", "L", "p", "q", "r") else [lo, hi]
        spec["limits"] = lim
        # start values must respect the limits
        spec["start"] = dict(spec["start"], **{nm: lim[nm][0] + 0.05 * (lim[nm][1] - lim[nm][0]) for nm in lim if nm in ("A", "L", "p", "q", "r")})
    fixed_vals = {nm: (v if v is not None else spec["start"].get(nm, tb[nm])) for nm, v in spec.get("fixed", {}).items()}
    free = [nm for nm in names if nm not in fixed_vals]
    if not free:
        raise Discard("no free parameter")
    dyn = ref.t == "xy" and any(s.get("enabled", True) and (s.get("axis") == "x" or (s["ref"] == "model" and s["relative"])) for s in spec["sources"])
    dyn = dyn or (ref.t == "indexed" and any(s.get("enabled", True) and s["ref"] == "model" and s["relative"] for s in spec["sources"]))
    # ---- well-posedness by the reference
    if ref.t == "xy":
        sx = np.sqrt(np.clip(np.diag(ref.axis_cov("x", {nm: spec["start"].get(nm, fixed_vals.get(nm)) for nm in names})), 0, None))
        if np.any(sx > 0) and np.max(sx) > 0.5 * np.min(np.diff(np.sort(ref.x))):
            raise Discard("x uncertainties exceed half the spacing of the points: the first-order projection kafe2 documents is not meaningful there (jagged cost surface; not well-posed)")
    try:
        xr, fr, cost_free = reference_minimum(ref, spec, free, fixed_vals)
    except Exception:
        raise Discard("reference minimisation failed")
    if not np.isfinite(fr) or fr >= 1e29:
        raise Discard("reference cost not finite")
    scale = np.maximum(np.abs(xr), 1e-3) * 1e-3
    try:
        H = num_hessian(cost_free, xr, scale)
        ev = np.linalg.eigvalsh(H)
    except Exception:
        raise Discard("reference hessian failed")
    at_limit = any(nm in spec.get("limits", {}) and (abs(xr[i] - spec["limits"][nm][0]) < 1e-6 * (1 + abs(xr[i])) or abs(xr[i] - spec["limits"][nm][1]) < 1e-6 * (1 + abs(xr[i])))
                   for i, nm in enumerate(free))
    if not at_limit:
        if not np.all(np.isfinite(ev)) or ev.min() <= 0 or ev.max() / ev.min() > 5e3:
            raise Discard("reference hessian not PD / cond > 5e3 (ill-posed)")
        Cref = 2.0 * np.linalg.inv(H)
        sref = np.sqrt(np.diag(Cref))
        if np.any(np.abs(xr - np.array([tb[nm] for nm in free])) > 4.0 * sref + 1e-12) and not spec.get("fixed") and not spec.get("constraints"):
            raise Discard("reference minimum far from the truth (ill-posed)")
    else:
        sref = np.maximum(np.abs(xr), 1e-2) * 0.05
    labels = {spec["type"], spec.get("dea", "nonlinear")}
    results = {}
    for backend in ("iminuit", "scipy"):
        sp = dict(spec, minimizer=backend)
        with guard(f"build[{spec['type']}]"):
            fit = fs.build(sp)
        n_min = {"n": 0}
        _inner = fit._fitter.do_fit

        def _counted(*a, _inner=_inner, **k):  # number of minimisations inside one do_fit (observed from the harness, kafe2 is not changed)
            n_min["n"] += 1
            return _inner(*a, **k)
        fit._fitter.do_fit = _counted
        try:
            fit.do_fit()
        except Exception as ex:  # noqa: the property speaks about the optimum that is reported, not about whether a fit can be completed
            raise Discard(f"do_fit[{backend}] raised {type(ex).__name__} (no optimum reported)")
        fit._fitter.do_fit = _inner
        with guard("results"):
            pv = np.asarray(fit.parameter_values, float)
            pe = np.asarray(fit.parameter_errors, float)
        results[backend] = (pv, pe, fit)
        p_hat = dict(zip(names, pv))
        # (3) fixed exact, limits respected
        for nm, v in fixed_vals.items():
            if p_hat[nm] != v:
                raise Violation(f"fixed-moved[{backend}]", f"fixed parameter {nm} = {p_hat[nm]!r}, fixed at {v!r}")
        for nm, (lo, hi) in spec.get("limits", {}).items():
            if nm in free and not (lo <= p_hat[nm] <= hi):
                raise Violation(f"limit-violated[{backend}]", f"{nm} = {p_hat[nm]!r} outside [{lo!r}, {hi!r}]")
        # (1) local minimum of the full cost (nonlinear algorithm, or no dynamic errors)
        if spec.get("dea", "nonlinear") == "nonlinear" or not dyn:
            v_hat = np.array([p_hat[nm] for nm in free])
            c_hat = cost_free(v_hat)
            sig = np.where(np.isfinite(pe) & (pe > 0), pe, 0.0)
            sig = np.array([sig[names.index(nm)] if sig[names.index(nm)] > 0 else sref[i] for i, nm in enumerate(free)])
            for k_, d in enumerate(case["dirs"]):
                u = np.array([d[i % 4] for i in range(len(free))], float)
                nu = np.linalg.norm(u)
                if nu == 0:
                    continue
                for s in (0.01, 0.1, 0.5):
                    v = v_hat + s * sig * u / nu
                    for i, nm in enumerate(free):
                        if nm in spec.get("limits", {}):
                            v[i] = min(max(v[i], spec["limits"][nm][0]), spec["limits"][nm][1])
                    c = cost_free(v)
                    if c < c_hat - 1e-3:
                        opt_ = getattr(results[backend][2]._fitter.minimizer, "_opt_result", None) if backend == "scipy" else None
                        fail_tag = ",scipy-reported-failure" if opt_ is not None and not bool(getattr(opt_, "success", True)) else ""  # bug model of KF-C06-2
                        raise Violation(f"not-a-local-minimum[{backend}:{spec['type']}:{spec.get('dea', 'nonlinear')}{',limits' if spec.get('limits') else ''}{fail_tag}]",
                                        f"full cost at reported optimum {dict(zip(free, v_hat))} is {c_hat!r}, but {c!r} at {dict(zip(free, v))} "
                                        f"({s} sigma away); reference optimum {dict(zip(free, xr))} with cost {fr!r}")
        # (4) iterative: fixed point
        if spec.get("dea") == "iterative" and dyn and backend == "iminuit":
            Vhat = ref.total_cov(p_hat)
            e = np.sqrt(np.diag(Vhat))
            sp2 = dict(spec, minimizer=backend, dea="nonlinear", cost="chi2_covariance", constraints=spec["constraints"],
                       sources=[{"name": "frozen", "ref": "data", "axis": "y" if spec["type"] == "xy" else None, "kind": "matrix", "form": "cov",
                                 "R": (Vhat / np.outer(e, e)).tolist(), "e": e.tolist(), "relative": False, "enabled": True}])
            sp2["start"] = {nm: p_hat[nm] for nm in free}
            with guard("build-frozen"):
                fit2 = fs.build(sp2)
            with guard("do_fit-frozen"):
                fit2.do_fit()
            pv2 = np.asarray(fit2.parameter_values, float)
            for i, nm in enumerate(names):
                if nm in free and abs(pv2[i] - pv[i]) > 0.1 * max(pe[i], 1e-300):  # two minimisations, each within 0.045 sigma of its minimum
                    # facet naming only (no in-domain demonstration: observed only with x uncertainties larger than half the point spacing): the loop of do_fit used up all its iterations (1 initial fit + max_iterations refits) without converging
                    max_it = int(fs.k("kafe2.config").kc("fit", "iterative_do_fit", "max_iterations"))
                    facet = "iterative-loop-exhausted" if n_min["n"] >= 1 + max_it else "iterative-not-a-fixed-point"
                    raise Violation(facet, f"{nm}: reported {pv[i]!r}, refit with the covariance evaluated at the reported optimum gives {pv2[i]!r} "
                                    f"({(pv2[i] - pv[i]) / pe[i]:.3g} sigma)")
            labels.add("iterative_fixed_point_checked")
    # (2) backends agree
    (pa, ea, _), (pb, eb, _) = results["iminuit"], results["scipy"]
    for i, nm in enumerate(names):
        if nm in free:
            s = ea[i] if np.isfinite(ea[i]) and ea[i] > 0 else sref[free.index(nm)]
            a_, b_ = (abs(pa[i]), abs(pb[i])) if nm in ("s", "g", "sigma") else (pa[i], pb[i])  # peak families and the normal density depend on the width only through its square
            if abs(a_ - b_) > 0.1 * s:  # each backend may stop 1e-3 in cost (= 0.045 sigma on a parabola) away from the minimum: 2 x 0.045 sigma apart
                ca = cost_free(np.array([dict(zip(names, pa))[n_] for n_ in free]))
                cb = cost_free(np.array([dict(zip(names, pb))[n_] for n_ in free]))
                worse = "scipy" if cb > ca + 1e-3 else ("iminuit" if ca > cb + 1e-3 else "neither")
                if not (np.isfinite(ca) and np.isfinite(cb)) or max(abs(ca), abs(cb)) >= 1e29:
                    raise Discard("full cost not finite at the reported optimum (ill-posed)")
                if worse == "neither" and abs(a_ - b_) <= 0.3 * s:
                    continue  # both within the minimiser tolerance of the same minimum in cost: the valley is flatter than the parabola the uncertainty assumes
                # two different local minima of the full cost (a barrier on the segment between them) = multi-modal surface, which the property
                # excludes as not well-posed; a backend that stopped on a slope towards the other one's result is a violation
                va_ = np.array([dict(zip(names, pa))[n_] for n_ in free])
                vb_ = np.array([dict(zip(names, pb))[n_] for n_ in free])
                seg = [cost_free(va_ + t_ * (vb_ - va_)) for t_ in (0.02, 0.05, 0.1, 0.25, 0.5, 0.75, 0.9, 0.95, 0.98)]
                if np.all(np.isfinite(seg)) and max(seg) > max(ca, cb) + 1e-5 * max(1.0, abs(ca), abs(cb)):
                    raise Discard("the two backends sit in different local minima separated by a barrier (multi-modal surface: not well-posed)")
                lim_tag = ",limits" if spec.get("limits") else ""
                # bug model of KF-C06-2: scipy's own OptimizeResult says success=False (BFGS line search failed, "precision loss") and do_fit returned normally
                opt_ = getattr(results["scipy"][2]._fitter.minimizer, "_opt_result", None)
                if worse == "scipy" and opt_ is not None and not bool(getattr(opt_, "success", True)):
                    lim_tag += ",scipy-reported-failure"
                raise Violation(f"backends-disagree[{spec['type']}:{spec.get('dea', 'nonlinear')}:worse={worse}{lim_tag}]",
                                f"{nm}: iminuit {pa[i]!r} (full cost {ca!r}), scipy {pb[i]!r} (full cost {cb!r}): {(pa[i] - pb[i]) / s:.3g} sigma apart; limits {spec.get('limits')}")
    if dyn:
        labels.add("dynamic_errors")
    if at_limit:
        labels.add("active_limit")
    if fixed_vals:
        labels.add("fixed")
    return {"nontrivial": dyn or at_limit or bool(fixed_vals), "labels": sorted(labels)}


KNOWN = {
    # MinimizerScipyOptimize passes tol=1e-6 to scipy.optimize.minimize; with parameter limits scipy selects L-BFGS-B, for which tol becomes the
    # *relative* function-reduction threshold ftol: the search stops ("RELATIVE REDUCTION OF F <= FACTR*EPSMCH") far from the constrained
    # minimum (several cost units) when a step along an active bound makes little progress.
    "KF-C06-1": lambda sub, case, v: bool(case["spec"].get("limits")) and (v.facet.startswith("not-a-local-minimum[scipy") or "worse=scipy,limits" in v.facet),
    # scipy.optimize.minimize(BFGS) returns success=False / nit=0 ("precision loss": the first unit-Hessian step x - grad lands where the model overflows) and
    # MinimizerScipyOptimize.minimize does not look at OptimizeResult.success: do_fit returns normally with the starting values as "optimum"
    "KF-C06-2": lambda sub, case, v: not case["spec"].get("limits") and (v.facet.startswith("backends-disagree") and v.facet.endswith("worse=scipy,scipy-reported-failure]")
                                                                                    or v.facet.startswith("not-a-local-minimum[scipy") and v.facet.endswith(",scipy-reported-failure]")),
}

SUBS = [
    Sub("optimum", lambda tier: strat(tier), run, quick=1280, thorough=30000, about="local-minimum / backend agreement / fixed+limits / iterative fixed point on well-posed nonlinear problems"),
]
