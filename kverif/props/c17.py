"""C17 - every number shown to the user is a faithful rounding of the fit state.

Sub-checks
  fmt     ParameterFormatter.get_formatted over generated (value, uncertainty | asymmetric pair, n_significant_digits, fixed,
          plain/LaTeX): the printed strings are parsed back and judged with exact Decimal arithmetic.
  report  small fitted problems (xy / indexed / hist, optional fixed / constrained parameters, optional post-fit parameter
          change): report(), the preface comment of to_file() and get_result_dict() are parsed back and compared with what
          the fit object holds at that moment.
"""
import importlib
import io
import math
import re
from decimal import ROUND_HALF_EVEN, Decimal, localcontext

import numpy as np
from hypothesis import strategies as st

from ..core import Discard, Violation, guard
from ..runner import Sub

PROPERTY = "C17"
RULE = ("fmt: values/uncertainties log-uniform over 1e-12..1e12 with carry cases constructed on purpose (mantissa within a few "
        "ulp..1e-3 of a rounding boundary of the requested digit), n_significant_digits 1..5, plain and LaTeX; non-trivial = the "
        "uncertainty or the value rounds across a power of ten, or |v|<u, or asymmetric uncertainties of different magnitude, or "
        "n_significant_digits != 2; report: every case is a fitted problem whose report / preface / result dict are parsed back; "
        "non-trivial = fixed or constrained parameter, asymmetric errors, or a parameter change after the fit; distinct by case hash")
ASSUMPTIONS = [
    "reference rounding: decimal.Decimal of the exact binary value, ROUND_HALF_EVEN at the requested significant digit "
    "(what correctly rounded printf-style formatting yields)",
    "asymmetric uncertainties: the smaller one must be the n-significant-digit rounding; the larger one must be a faithful rounding "
    "at its own displayed precision with at least n significant digits; the value is judged against the coarser of the two units",
    "finite values, strictly positive uncertainties (a zero/NaN uncertainty is a documented fallback and not generated)",
    "compact preface table: a displayed number may be off by 0.5 unit of its own last digit (+1e-6 unit for the double rounding "
    "round()->'%g' that cannot be distinguished from faithful rounding without knowing the intermediate)",
]


def _fmt_mod():
    import kafe2  # noqa

    return importlib.import_module("kafe2.fit._base.format")


# ---------------------------------------------------------------------------------------------------
# parsing displayed numbers

_NUM = r"[-+]?(?:\d+\.?\d*|\.\d+)(?:[eE][-+]?\d+)?"
_LNUM = r"[-+]?(?:\d+\.?\d*|\.\d+)(?:[eE][-+]?\d+|\\times10\^\{[-+]?\d*\})?"


class Shown:
    """a displayed number: exact value and the exponent of its last displayed digit"""

    def __init__(self, token):
        self.token = token
        t = token.strip()
        m = re.fullmatch(r"([-+]?(?:\d+\.?\d*|\.\d+))\\times10\^\{([-+]?\d*)\}", t)
        if m:
            mant = Decimal(m.group(1))
            k = int(m.group(2)) if m.group(2) not in ("", "-", "+") else 0
            self.value = mant.scaleb(k)
            self.exp = mant.as_tuple().exponent + k
        else:
            d = Decimal(t)
            self.value = d
            self.exp = d.as_tuple().exponent
        self.unit = Decimal(1).scaleb(self.exp)
        self.ndigits = len(self.value.as_tuple().digits)

    def sig_digits_shown(self):
        # number of digits from the leading non-zero digit to the last displayed digit
        if self.value == 0:
            return 0
        return self.value.adjusted() - self.exp + 1


def round_sig(x, n):
    """exact value of float x rounded (half even) to n significant digits, as Decimal"""
    d = Decimal(x)
    if d == 0:
        return d
    with localcontext() as ctx:
        ctx.prec = 60
        q = Decimal(1).scaleb(d.adjusted() - n + 1)
        return d.quantize(q, rounding=ROUND_HALF_EVEN)


def half_unit_ok(shown, true, unit=None, slack=Decimal("1e-9")):
    unit = shown.unit if unit is None else unit
    with localcontext() as ctx:
        ctx.prec = 80
        return abs(shown.value - Decimal(true)) <= unit / 2 * (1 + slack)


# ---------------------------------------------------------------------------------------------------
# fmt

def _mag(lo=-12, hi=12):
    return st.floats(lo, hi).map(lambda e: 10.0 ** e)


def _carry(n_digits):
    """uncertainty whose n-digit rounding sits at / next to a rounding boundary, incl. carries into the next power of ten"""
    def build(k, eps_exp, side, lead):
        # mantissa: lead digits then ...5 boundary, or 9.99..95 carry boundary
        if lead is None:
            m = 10.0 - 0.5 * 10.0 ** (1 - n_digits)  # e.g. n=2: 9.95 -> rounds to 10
        else:
            m = lead + 0.5 * 10.0 ** (1 - n_digits)
        m = m * (1.0 + side * 10.0 ** eps_exp)
        return m * 10.0 ** k
    return st.builds(build, st.integers(-9, 9), st.integers(-16, -3), st.sampled_from([-1, 0, 1]),
                     st.one_of(st.none(), st.integers(10, 99).map(lambda i: i / 10.0)))


def strat_fmt(tier):
    n = st.integers(1, 5)

    def with_n(nd):
        err = st.one_of(_mag(), _mag(-4, 4), _carry(nd), _carry(2))
        sign = st.sampled_from([1.0, -1.0])
        val = st.one_of(
            st.builds(lambda m, s: m * s, _mag(), sign),
            st.builds(lambda m, s: m * s, _mag(-3, 3), sign),
            st.builds(lambda m, s: m * s, _carry(nd), sign),
            st.just(0.0),
            st.floats(-1e3, 1e3, allow_nan=False),
        )
        # value relative to error: comparable, much larger, much smaller, or carrying at the error's last digit
        rel = st.one_of(st.none(), st.floats(-3, 9).map(lambda e: 10.0 ** e), st.integers(1, 9999).map(lambda i: i + 0.5 - 1e-9))
        asym = st.one_of(st.none(), st.tuples(st.floats(0.05, 20.0), st.floats(0.05, 20.0)))
        return st.fixed_dictionaries({
            "n": st.just(nd), "err": err, "val": val, "rel": rel, "asym": asym,
            "fixed": st.sampled_from([False] * 9 + [True]), "with_name": st.booleans(),
            "no_err": st.sampled_from([False] * 12 + [True]),
        })
    return n.flatmap(with_n)


def _parse_formatted(s, latex, name):
    """returns dict(kind, val, err|up/down) of Shown numbers"""
    body = s
    if name is not None:
        pre = (f"${{{name}}}$" if latex else name) + " = "
        if not body.startswith(pre):
            raise Violation("name-missing", f"{s!r} does not start with {pre!r}")
        body = body[len(pre):]
    num = _LNUM if latex else _NUM
    if "(fixed)" in body:
        m = re.fullmatch(rf"\$?({num})\$? \(fixed\)", body)
        if not m:
            raise Violation("unparsable", f"{s!r}")
        return {"kind": "fixed", "val": Shown(m.group(1))}
    if latex:
        m = re.fullmatch(rf"\$({num}) \\pm ({num})\$", body)
        if m:
            return {"kind": "sym", "val": Shown(m.group(1)), "err": Shown(m.group(2))}
        m = re.fullmatch(rf"\$\{{({num})\}}\^\{{\+({num})\}}_\{{-({num})\}}\$", body)
        if m:
            return {"kind": "asym", "val": Shown(m.group(1)), "up": Shown(m.group(2)), "down": Shown(m.group(3))}
        m = re.fullmatch(rf"\$({num})\$", body)
        if m:
            return {"kind": "plain", "val": Shown(m.group(1))}
    else:
        m = re.fullmatch(rf"({num}) \+/- ({num})", body)
        if m:
            return {"kind": "sym", "val": Shown(m.group(1)), "err": Shown(m.group(2))}
        m = re.fullmatch(rf"({num}) \+ ({num}) \(up\) - ({num}) \(down\)", body)
        if m:
            return {"kind": "asym", "val": Shown(m.group(1)), "up": Shown(m.group(2)), "down": Shown(m.group(3))}
        m = re.fullmatch(rf"({num})", body)
        if m:
            return {"kind": "plain", "val": Shown(m.group(1))}
    raise Violation("unparsable", f"{s!r}")


def judge_value_error(tag, p, v, n, err=None, down=None, up=None, latex=False):
    """the rules of the property for one parsed 'value +/- uncertainty' display"""
    labels = set()
    if p["kind"] == "sym":
        want = round_sig(err, n)
        if p["err"].value != want:
            raise Violation("uncertainty-rounding", f"{tag}: uncertainty {err!r} displayed as {p['err'].token!r}, correctly rounded to {n} digits: {want}")
        if not latex and p["err"].sig_digits_shown() != n:
            raise Violation("uncertainty-digits", f"{tag}: uncertainty {err!r} displayed as {p['err'].token!r}: {p['err'].sig_digits_shown()} significant digits, requested {n}")
        unit = Decimal(1).scaleb(want.adjusted() - n + 1) if want != 0 else p["err"].unit
        if want.adjusted() != Decimal(err).adjusted():
            labels.add("uncertainty_carries")
        u_abs = abs(err)
    elif p["kind"] == "asym":
        small, big = (down, up) if abs(down) <= abs(up) else (up, down)
        ps, pb = (p["down"], p["up"]) if abs(down) <= abs(up) else (p["up"], p["down"])
        want = round_sig(abs(small), n)
        if ps.value != want:
            raise Violation("uncertainty-rounding", f"{tag}: smaller asymmetric uncertainty {small!r} displayed as {ps.token!r}, correctly rounded to {n} digits: {want}")
        if not half_unit_ok(pb, abs(big)):
            raise Violation("uncertainty-rounding", f"{tag}: larger asymmetric uncertainty {big!r} displayed as {pb.token!r}: off by more than half a unit of its last digit")
        if not latex and pb.sig_digits_shown() < n:
            raise Violation("uncertainty-digits", f"{tag}: larger asymmetric uncertainty {big!r} displayed as {pb.token!r} with fewer than {n} significant digits")
        unit_s = Decimal(1).scaleb(want.adjusted() - n + 1)
        unit = max(unit_s, pb.unit)
        u_abs = min(abs(down), abs(up))
        if Decimal(abs(big)).adjusted() != Decimal(abs(small)).adjusted():
            labels.add("asymmetric_different_magnitude")
    else:
        raise Violation("uncertainty-missing", f"{tag}: no uncertainty displayed: {p}")
    if not half_unit_ok(p["val"], v, unit=unit):
        raise Violation("value-rounding", f"{tag}: value {v!r} displayed as {p['val'].token!r}: differs by more than half a unit ({unit}) of the uncertainty's last displayed digit")
    if abs(v) >= u_abs and not latex and p["val"].exp > unit.adjusted():
        raise Violation("value-digits", f"{tag}: value {v!r} displayed as {p['val'].token!r} is not shown down to the uncertainty's last digit ({unit})")
    if abs(v) < u_abs:
        labels.add("value_below_uncertainty")
    if v != 0 and round_sig(v, max(1, Decimal(v).adjusted() - unit.adjusted() + 1)).adjusted() != Decimal(v).adjusted():
        labels.add("value_carries")
    return labels


def run_fmt(case):
    F = _fmt_mod()
    n = case["n"]
    err = float(case["err"])
    v = float(case["val"])
    if case["rel"] is not None:
        v = math.copysign(err * case["rel"], v if v != 0 else 1.0)
    if not (math.isfinite(v) and math.isfinite(err) and 1e-300 < err < 1e300 and abs(v) < 1e300):
        raise Discard("non-finite")
    asym = None
    if case["asym"] is not None:
        asym = (-err * case["asym"][0], err * case["asym"][1])
    name = "a" if case["with_name"] else None
    labels = set()
    if n != 2:
        labels.add("n_sig!=2")
    out = {}
    for latex in (False, True):
        with guard("construct"):
            pf = F.ParameterFormatter("a", value=v, error=None if case["no_err"] else err, asymmetric_error=None if case["no_err"] else asym)
            pf.fixed = bool(case["fixed"])
        with guard("get_formatted"):
            s = pf.get_formatted(with_name=name is not None, n_significant_digits=n, asymmetric_error=asym is not None and not case["no_err"], format_as_latex=latex)
        tag = f"{'latex' if latex else 'plain'} n={n} v={v!r} err={err!r} asym={asym!r} -> {s!r}"
        p = _parse_formatted(s, latex, "a" if name else None)
        out[latex] = p
        if case["fixed"]:
            if p["kind"] != "fixed":
                raise Violation("fixed-marker", f"{tag}: fixed parameter not marked as fixed")
            if not half_unit_ok(p["val"], v):
                raise Violation("value-rounding", f"{tag}: fixed value off by more than half a unit of its own last digit")
            labels.add("fixed")
            continue
        if p["kind"] == "fixed":
            raise Violation("fixed-marker", f"{tag}: free parameter marked as fixed")
        if case["no_err"]:
            if p["kind"] != "plain":
                raise Violation("unexpected-uncertainty", tag)
            if not half_unit_ok(p["val"], v):
                raise Violation("value-rounding", f"{tag}: off by more than half a unit of its own last digit")
            continue
        if asym is not None:
            if p["kind"] != "asym":
                raise Violation("uncertainty-missing", f"{tag}: asymmetric uncertainties requested")
            labels |= judge_value_error(tag, p, v, n, down=asym[0], up=asym[1], latex=latex)
        else:
            if p["kind"] != "sym":
                raise Violation("uncertainty-missing", tag)
            labels |= judge_value_error(tag, p, v, n, err=err, latex=latex)
    # plain and LaTeX show the same numbers
    a, b = out[False], out[True]
    if a["kind"] != b["kind"]:
        raise Violation("latex-differs", f"plain {a} vs latex {b}")
    for k in ("val", "err", "up", "down"):
        if k in a and a[k].value != b[k].value:
            raise Violation("latex-differs", f"{k}: plain {a[k].token!r} vs latex {b[k].token!r} (v={v!r}, err={err!r}, n={n})")
    nontrivial = bool(labels - {"fixed"})
    return {"nontrivial": nontrivial, "labels": sorted(labels)}


# ---------------------------------------------------------------------------------------------------
# report

def lin(x, a=1.0, b=0.0):
    return a * x + b


def quad(x, a=1.0, b=0.0, c=0.0):
    return a * x ** 2 + b * x + c


def expo(x, A0=1.0, tau=1.0):
    return A0 * np.exp(-x / tau)


def idx3(a=1.0, b=1.0):
    return np.array([a, a + b, a - b, 2 * a + b, b])


def normal_density(x, mu=0.0, sigma=1.0):
    return np.exp(-0.5 * ((x - mu) / sigma) ** 2) / np.sqrt(2.0 * np.pi * sigma ** 2)


def strat_report(tier):
    return st.fixed_dictionaries({
        "kind": st.sampled_from(["lin", "lin", "quad", "expo", "idx", "hist"]),
        "scale": st.floats(-4, 5).map(lambda e: 10.0 ** e),
        "noise": st.lists(st.builds(lambda m, sg: m * sg, st.floats(0.2, 1.5), st.sampled_from([-1.0, 1.0])), min_size=12, max_size=12),
        "relerr": st.floats(0.003, 0.3),
        "rho": st.sampled_from([0.0, 0.0, 0.3, 0.8]),
        "fix": st.sampled_from([None, None, None, 0, 1]),
        "constrain": st.booleans(),
        "asym": st.booleans(),
        "post": st.sampled_from([None, None, "set", "fix_after", "set_fixed", "set_fixed_refit"]),
        "minimizer": st.sampled_from(["iminuit", "iminuit", "scipy"]),
        "noise_mult": st.sampled_from([1.0, 1.0, 1.0, 6.0, 15.0]),  # data that scatter much more than their uncertainties: chi2 of several hundred (more digits in front of the point)
    })


def build_fit(case):
    import kafe2

    k = case["kind"]
    s = float(case["scale"])
    nz = np.array(case["noise"]) * (float(case.get("noise_mult", 1.0)) if k in ("lin", "quad", "idx") else 1.0)  # only where the optimum stays unique
    rel = float(case["relerr"])
    if k in ("lin", "quad", "expo"):
        x = np.linspace(0.5, 6.0, 10)
        truth = {"lin": (1.7 * s, -0.6 * s), "quad": (0.4 * s, -1.1 * s, 2.0 * s), "expo": (3.0 * s, 2.2)}[k]
        f = {"lin": lin, "quad": quad, "expo": expo}[k]
        y0 = f(x, *truth)
        sig = rel * max(np.max(np.abs(y0)), 1e-300)
        y = y0 + nz[:10] * sig
        fit = kafe2.XYFit([x, y], f, minimizer=case["minimizer"])
        fit.add_error("y", sig, correlation=case["rho"])
        start = [t * 1.1 for t in truth]
    elif k == "idx":
        truth = (2.0 * s, 0.7 * s)
        d0 = idx3(*truth)
        sig = rel * np.max(np.abs(d0))
        d = d0 + nz[:5] * sig
        fit = kafe2.IndexedFit(d, idx3, minimizer=case["minimizer"])
        fit.add_error(sig, correlation=case["rho"])
        start = [t * 1.1 for t in truth]
    else:
        # deterministic pseudo-sample: quantiles of the normal distribution, jittered by the noise vector
        from scipy.stats import norm

        q = (np.arange(60) + 0.5) / 60.0
        data = norm.ppf(q) * 1.3 + 0.4 + 0.05 * np.resize(nz, 60)
        hc = kafe2.HistContainer(n_bins=8, bin_range=(-3.0, 4.0), fill_data=list(data))
        fit = kafe2.HistFit(hc, normal_density, minimizer=case["minimizer"])
        truth = (0.4, 1.3)
        start = [0.5, 1.2]
    names = list(fit.parameter_names)
    fit.set_all_parameter_values(start)
    return fit, names, truth


def _section(text, title):
    i = text.find(title)
    if i < 0:
        return None
    lines = text[i:].split("\n")[2:]
    out = []
    started = False
    for ln in lines:
        if ln.strip() == "":
            if started:
                break
            continue
        started = True
        out.append(ln)
    return out


def run_report(case):
    fit, names, truth = build_fit(case)
    labels = set()
    if case["fix"] is not None:
        fi = case["fix"] % len(names)
        with guard("fix_parameter"):
            fit.fix_parameter(names[fi], truth[fi])
        labels.add("fixed")
    if case["constrain"]:
        ci = (1 if case["fix"] == 0 else 0) % len(names)
        with guard("add_parameter_constraint"):
            fit.add_parameter_constraint(names[ci], truth[ci], abs(truth[ci]) * 0.05 + 1e-12)
        labels.add("constrained")
    with guard("do_fit"):
        fit.do_fit()
    if fit.parameter_errors is not None and not np.all(np.isfinite(np.asarray(fit.parameter_errors, float))):
        raise Discard("the minimiser did not produce finite uncertainties (C05-C07's subject): nothing to format")
    if case["post"] == "set":
        free = [nm for nm in names if nm not in fit._fitter.fixed_parameters]
        with guard("set_parameter_values"):
            fit.set_parameter_values(**{free[0]: fit.parameter_values[names.index(free[0])] * 1.37 + 0.01})
        labels.add("changed_after_fit")
    elif case["post"] in ("set_fixed", "set_fixed_refit"):
        # the value of a *fixed* parameter is changed without fixing it again (a manual scan: set, fit, report)
        fx = list(fit._fitter.fixed_parameters)
        if fx:
            with guard("set_parameter_values"):
                fit.set_parameter_values(**{fx[0]: fit.parameter_values[names.index(fx[0])] * 1.25 + 0.01})
            if case["post"] == "set_fixed_refit":
                with guard("do_fit"):
                    fit.do_fit()
            labels.add("fixed_value_changed_after_fixing")
    elif case["post"] == "fix_after":
        free = [nm for nm in names if nm not in fit._fitter.fixed_parameters]
        if len(free) >= 2:
            with guard("fix_parameter"):
                fit.fix_parameter(free[-1])
            labels.add("fixed_after_fit")
    asym = bool(case["asym"]) and case["post"] in (None, "set_fixed_refit")
    if asym:
        labels.add("asymmetric")
    with guard("read-results"):
        if asym:
            _ = fit.asymmetric_parameter_errors  # computed first: MINOS re-minimises and may move the optimum within tolerance
        before = (np.asarray(fit.parameter_values, float).copy(), None if fit.parameter_errors is None else np.asarray(fit.parameter_errors, float).copy(),
                  np.asarray(fit.asymmetric_parameter_errors, float).copy() if asym else None)
    buf = io.StringIO()
    with guard("report"):
        fit.report(buf, asymmetric_parameter_errors=asym)
    text = buf.getvalue()
    # what the fit holds now
    with guard("read-results"):
        vals = np.asarray(fit.parameter_values, float)
        errs = fit.parameter_errors
        errs = None if errs is None else np.asarray(errs, float)
        cor = fit.parameter_cor_mat
        did = fit.did_fit
        errors_valid = fit.errors_valid
        gof = fit.goodness_of_fit
        ndf = fit.ndf
        prob = fit.chi2_probability
        cost = fit.cost_function_value
        fixed = dict(fit._fitter.fixed_parameters)
        aerr = np.asarray(fit.asymmetric_parameter_errors, float) if asym else None
    tagbase = f"{case['kind']} scale={case['scale']:.3g}"
    # --- Model Parameters
    sec = _section(text, "Model Parameters\n")
    if sec is None or len(sec) != len(names):
        raise Violation("report-parameters", f"{tagbase}: parameter section lists {sec}, fit has {names}")
    for i, (ln, nm) in enumerate(zip(sec, names)):
        ln = ln.strip()
        p = _parse_formatted(ln, False, nm)
        tag = f"{tagbase} report line {ln!r} (held value {vals[i]!r}, error {None if errs is None else errs[i]!r})"
        if nm in fixed:
            if p["kind"] != "fixed":
                raise Violation("report-fixed-marker", f"{tag}: fixed parameter not marked")
            if not half_unit_ok(p["val"], vals[i]):
                raise Violation("report-value", f"{tag}: fixed value off by more than half a unit of its last digit")
            continue
        if p["kind"] == "fixed":
            raise Violation("report-fixed-marker", f"{tag}: free parameter marked fixed")
        if not errors_valid:
            if p["kind"] != "plain" or not half_unit_ok(p["val"], vals[i]):
                raise Violation("report-value", f"{tag}: value without valid errors must be a faithful rounding")
            continue
        # the held state is read before and after report(): re-minimisations inside report (MINOS) may move the optimum within
        # the minimizer tolerance (that is C08's subject); the display must be a faithful rounding of one of the two states
        first = None
        for (cv, ce, ca) in ((vals, errs, aerr), before):
            try:
                if asym and ca is not None and np.all(np.isfinite(ca[i])) and np.all(ca[i] != 0):
                    if p["kind"] != "asym":
                        raise Violation("report-asymmetric", f"{tag}: asymmetric errors requested")
                    judge_value_error(tag, p, float(cv[i]), 2, down=float(ca[i][0]), up=float(ca[i][1]))
                elif p["kind"] == "sym":
                    judge_value_error(tag, p, float(cv[i]), 2, err=float(ce[i]))
                else:
                    raise Violation("report-uncertainty-missing", tag)
                first = None
                break
            except Violation as e:
                first = first or e
        if first is not None:
            raise Violation("report-" + first.facet if not first.facet.startswith("report-") else first.facet, first.detail)
    # --- correlations
    sec = _section(text, "Model Parameter Correlations\n")
    if errors_valid and cor is not None:
        if sec is None:
            raise Violation("report-correlations", f"{tagbase}: correlation section missing")
        rows = sec[2:]
        if len(rows) != len(names):
            raise Violation("report-correlations", f"{tagbase}: {len(rows)} correlation rows for {len(names)} parameters")
        for i, ln in enumerate(rows):
            toks = ln.split()
            if toks[0] != names[i] or len(toks) != len(names) + 1:
                raise Violation("report-correlations", f"{tagbase}: row {ln!r}")
            for j, t in enumerate(toks[1:]):
                held = float(np.asarray(cor)[i, j])
                if t == "nan" and math.isnan(held):
                    continue
                if not half_unit_ok(Shown(t), held):
                    raise Violation("report-correlations", f"{tagbase}: cor[{i},{j}] displayed {t!r}, held {held!r}")
    # --- cost section
    m = re.search(rf"(chi2|GoF) / ndf = ({_NUM}) / (-?\d+)(?: = ({_NUM}))?", text)
    if m:
        if gof is None:
            raise Violation("report-gof", f"{tagbase}: report shows {m.group(0)!r} but fit.goodness_of_fit is None")
        if not half_unit_ok(Shown(m.group(2)), float(gof)):
            raise Violation("report-gof", f"{tagbase}: displayed {m.group(2)!r}, held goodness_of_fit {gof!r}")
        if int(m.group(3)) != ndf:
            raise Violation("report-ndf", f"{tagbase}: displayed ndf {m.group(3)}, held {ndf}")
        if m.group(4) is not None and ndf > 0 and not half_unit_ok(Shown(m.group(4)), float(gof) / ndf):
            raise Violation("report-gof-per-ndf", f"{tagbase}: displayed {m.group(4)!r}, held {float(gof) / ndf!r}")
    else:
        m2 = re.search(rf"Cost = ({_NUM})", text)
        if not m2:
            raise Violation("report-cost", f"{tagbase}: neither gof nor cost displayed")
        if not half_unit_ok(Shown(m2.group(1)), float(cost)):
            raise Violation("report-cost", f"{tagbase}: displayed {m2.group(1)!r}, held cost {cost!r}")
    m = re.search(rf"chi2 probability = ({_NUM})", text)
    if m:
        if prob is None or not half_unit_ok(Shown(m.group(1)), float(prob)):
            raise Violation("report-probability", f"{tagbase}: displayed {m.group(1)!r}, held {prob!r}")
    # --- result dict
    with guard("get_result_dict"):
        rd = fit.get_result_dict(asymmetric_parameter_errors=asym)
    if list(rd["parameter_values"].keys()) != names:
        raise Violation("result-dict-names", f"{list(rd['parameter_values'])} vs {names}")
    if not np.array_equal(np.asarray(list(rd["parameter_values"].values()), float), vals):
        raise Violation("result-dict-values", f"{rd['parameter_values']} vs held {vals}")
    if rd["did_fit"] != did or rd["ndf"] != ndf:
        raise Violation("result-dict-flags", f"did_fit {rd['did_fit']} / {did}, ndf {rd['ndf']} / {ndf}")
    if rd["cost"] != cost or (gof is not None and rd["goodness_of_fit"] != gof):
        raise Violation("result-dict-cost", f"cost {rd['cost']!r} / {cost!r}, gof {rd['goodness_of_fit']!r} / {gof!r}")
    if errors_valid and rd["parameter_errors"] is not None and not np.array_equal(np.asarray(list(rd["parameter_errors"].values()), float), errs):
        raise Violation("result-dict-errors", f"{rd['parameter_errors']} vs held {errs}")
    # --- preface of the saved file
    path = "c17_fit.yml"
    with guard("to_file"):
        fit.to_file(path, calculate_asymmetric_errors=asym)
    pre = []
    with open(path) as fh:
        for ln in fh:
            if ln.startswith("#") or ln.strip() == "":
                pre.append(ln.rstrip("\n"))
            else:
                break
    pre_text = "\n".join(pre)
    m = re.search(rf"# (chi2|GoF): ({_NUM})", pre_text)
    if did and gof is not None:
        if not m or not half_unit_ok(Shown(m.group(2)), float(gof)):
            raise Violation("preface-gof", f"{tagbase}: preface {m.group(0) if m else None!r}, held {gof!r}")
        m = re.search(r"# ndf: (-?\d+)", pre_text)
        if not m or int(m.group(1)) != ndf:
            raise Violation("preface-ndf", f"{tagbase}: preface ndf {m.group(1) if m else None}, held {ndf}")
        m = re.search(rf"# (?:chi2|GoF)/ndf: ({_NUM})", pre_text)
        if ndf > 0 and (not m or not half_unit_ok(Shown(m.group(1)), float(gof) / ndf, slack=Decimal("1e-6"))):
            raise Violation("preface-gof-per-ndf", f"{tagbase}: preface {m.group(0) if m else None!r}, held {float(gof) / ndf!r}")
    rows = [ln[1:].split() for ln in pre if ln.startswith("# ") and ln[2:].split() and ln[2:].split()[0] in names]
    # the column heads say what the columns are: value, (parabolic) uncertainty, with asymmetric uncertainties also 'down' and 'up', then the correlations
    heads = [re.split(r"\s{2,}", ln[1:].strip()) for ln in pre if ln.startswith("#") and "Par name" in ln]
    if rows and heads:
        want_heads = (["Par name", "Par val", "Par err parabolic", "Par err down", "Par err up", "Par cor mat"] if any(len(r_) > 3 + len(names) for r_ in rows)
                      else ["Par name", "Par val", "Par err", "Par cor mat"])
        if heads[0] != want_heads:
            raise Violation("preface-column-heads", f"{tagbase}: the table is headed {heads[0]!r}; its rows have {[len(r_) for r_ in rows]} entries for {len(names)} parameters "
                            f"(expected heads {want_heads!r})")
    if did and errors_valid:
        if [r[0] for r in rows] != names:
            raise Violation("preface-names", f"{tagbase}: preface table lists {[r[0] for r in rows]}, fit has {names}")
        def table_number(what, token, held):
            sh = Shown(token)
            if half_unit_ok(sh, held, slack=Decimal("1e-6")):
                return
            if half_unit_ok(sh, held, slack=Decimal("0.1")):
                # bug model of KF-C17-1: round(x, k) followed by '%g' (two roundings) is off by at most 0.55 unit
                raise Violation("preface-double-rounding", f"{tagbase}: {what} displayed {token!r}, held {held!r}: off by between 0.5 and 0.55 "
                                f"units of its last digit (rounded twice)")
            raise Violation(f"preface-{what}", f"{tagbase}: displayed {token!r}, held {held!r}")

        for i, r in enumerate(rows):
            table_number("value", r[1], float(vals[i]))
            held_fixed = errs is None or math.isnan(errs[i]) or errs[i] == 0.0
            if r[2] == "fixed":
                if not held_fixed:
                    raise Violation("preface-fixed", f"{tagbase}: {names[i]} shown as fixed but the fit holds the uncertainty {errs[i]!r}")
            else:
                if held_fixed:
                    raise Violation("preface-fixed", f"{tagbase}: {names[i]} holds no uncertainty but the table shows {r[2]!r}")
                table_number("error", r[2], float(errs[i]))
    return {"nontrivial": bool(labels), "labels": sorted(labels | {case["kind"]})}


KNOWN = {
    # kafe2.tools.get_compact_representation rounds with round(x, k) and then prints through tabulate's '%g' (6 digits): two
    # roundings, so a displayed table entry can be off by up to 0.55 units of its last digit instead of 0.5.
    "KF-C17-1": lambda sub, case, v: sub == "report" and v.facet == "preface-double-rounding",
}

SUBS = [
    Sub("fmt", strat_fmt, run_fmt, quick=48000, thorough=1500000, about="ParameterFormatter strings parsed back, exact Decimal rules"),
    Sub("report", strat_report, run_report, quick=640, thorough=12000, about="report / preface / result dict of fitted problems parsed back"),
]


def extra(tier, seed):
    """thorough tier: coverage-guided campaign (atheris / libFuzzer) over the same strategy and oracle, see kverif/fuzz.py"""
    from ..fuzz import thorough_extra

    return thorough_extra(PROPERTY, [("fmt", 40000, 16)], tier, seed)
