"""C13 - histogram model bin contents equal the integral of the density over each bin.

Generator: bin-edge sequences (uniform / non-uniform) x density families with closed-form antiderivative (polynomials of each
degree 0..5, normal, exponential, normal+uniform mixture) x parameter values x every bin_evaluation (rectangle, midpoint,
trapezoid, simpson, numerical, antiderivative callable, np.vectorize'd antiderivative) x density in {True, False}, read through
HistParametricModel.data and HistFit.model, re-read after parameter changes / rebinning / data replacement.

Oracle: exact integral F(b)-F(a).  For polynomials the *exact* quadrature error is known in closed form from the
Euler-Maclaurin expansion of a single interval (independent of nodes and weights):
    trapezoid - I = +h^2/12 (f'(b)-f'(a))                          (exact for degree <= 3)
    midpoint  - I = -h^2/24 (f'(b)-f'(a))                          (exact for degree <= 3)
    simpson   - I = +h^4/2880 (f'''(b)-f'''(a))                    (exact for degree <= 5)
so exactness for degree <= 1 / 1 / 3 and the textbook order are both pinned at rounding precision.  For the other families the
textbook error bounds with analytic derivative maxima are used as validity predicates.
"""
import importlib
import math

import numpy as np
from hypothesis import strategies as st
from scipy.special import erf

from ..core import Discard, Violation, expect_round, guard
from ..runner import Sub

PROPERTY = "C13"
RULE = ("edges x family x parameters x bin_evaluation x density flag, read through HistParametricModel.data and HistFit.model; "
        "non-trivial = non-uniform bins, or a polynomial of degree >= 2 (quadrature error non-zero and checked in closed form), or a "
        "re-read after a parameter change / rebin / data replacement; distinct by case hash")
ASSUMPTIONS = [
    "edges strictly ascending with widths >= 1e-3 and |x| <= 10, times a unit factor in {1, 1e-3, 1e-7, 1e2} that is applied consistently to edges and parameters; parameters O(1) in that unit "
    "(conditioning of F(b)-F(a) stays benign)",
    "'numerical' (scipy.integrate.quad) is judged at 1e-7 relative + 1e-9 absolute of sum|integrand| scale",
    "N (number of entries for density=True) is counted by the harness as the number of values filled into the data container, "
    "including those landing in underflow / overflow",
]


def _k(name):
    import kafe2  # noqa

    return importlib.import_module(name)


# ---- density families ----------------------------------------------------------------------------

_NS = {"np": np, "erf": erf, "math": math}
for _d in range(6):
    _args = ", ".join(f"c{k}=1.0" for k in range(_d + 1))
    _f = " + ".join(f"c{k} * x ** {k}" for k in range(_d + 1))
    _F = " + ".join(f"c{k} * x ** {k + 1} / {k + 1}.0" for k in range(_d + 1))
    exec(f"def poly{_d}(x, {_args}):\n    return {_f} + 0.0 * x\n", _NS)
    exec(f"def poly{_d}_F(x, {_args}):\n    return {_F}\n", _NS)


def normal(x, mu=0.0, sigma=1.0):
    return np.exp(-0.5 * ((x - mu) / sigma) ** 2) / np.sqrt(2.0 * np.pi * sigma ** 2)


def normal_F(x, mu=0.0, sigma=1.0):
    return 0.5 * (1.0 + erf((x - mu) / (np.sqrt(2.0) * sigma)))


def expo(x, tau=1.0):
    return np.exp(-x / tau) / tau


def expo_F(x, tau=1.0):
    return -np.exp(-x / tau)


def mix(x, mu=0.0, sigma=1.0, frac=0.5):
    return frac * np.exp(-0.5 * ((x - mu) / sigma) ** 2) / np.sqrt(2.0 * np.pi * sigma ** 2) + (1.0 - frac) * 0.05 + 0.0 * x


def mix_F(x, mu=0.0, sigma=1.0, frac=0.5):
    return frac * 0.5 * (1.0 + erf((x - mu) / (np.sqrt(2.0) * sigma))) + (1.0 - frac) * 0.05 * x


FAMILIES = {f"poly{d}": (_NS[f"poly{d}"], _NS[f"poly{d}_F"]) for d in range(6)}
FAMILIES.update({"normal": (normal, normal_F), "expo": (expo, expo_F), "mix": (mix, mix_F)})


def _scalar_F(F):
    """scalar-only antiderivative (to be wrapped in np.vectorize)"""
    import inspect

    sig = inspect.signature(F)
    names = list(sig.parameters)
    ns = {"_F": F, "math": math}
    args = ", ".join(f"{n}=1.0" if n != "x" else "x" for n in names)
    exec(f"def scalar_F({args}):\n    assert not hasattr(x, '__len__')\n    return float(_F(x, {', '.join(names[1:])}))\n", ns)
    return ns["scalar_F"]


def _params(fam):
    if fam.startswith("poly"):
        d = int(fam[4:])
        return st.lists(st.one_of(st.floats(-3, 3), st.integers(-3, 3).map(float)), min_size=d + 1, max_size=d + 1).filter(lambda c: c[-1] != 0.0)
    # widths down to a few per cent of a bin width: a density much narrower than a bin is where a fixed-order rule in place of the documented
    # adaptive integration goes wrong (seeded change C13-c); run() discards what is narrower than 0.025 of the widest bin (measured: quad is
    # within 1 % of the tolerance down to 0.02, and loses peaks below 0.01)
    _width = st.one_of(st.floats(0.3, 3.0), st.floats(0.03, 0.3))
    if fam == "normal":
        return st.tuples(st.floats(-3, 3), _width).map(list)
    if fam == "expo":
        return st.tuples(st.one_of(st.floats(0.3, 5.0), st.floats(0.05, 0.3))).map(list)
    return st.tuples(st.floats(-3, 3), _width, st.floats(0.05, 0.95)).map(list)


def _edges():
    uniform = st.builds(lambda lo, w, n: [lo + i * w for i in range(n + 1)], st.floats(-8, 4), st.floats(0.05, 2.0), st.integers(1, 8))
    widths = st.lists(st.floats(1e-3, 3.0), min_size=1, max_size=8)
    nonuni = st.builds(lambda lo, ws: list(np.concatenate([[lo], lo + np.cumsum(ws)])), st.floats(-8, 2), widths)
    return st.one_of(uniform, nonuni).filter(lambda e: max(abs(e[0]), abs(e[-1])) <= 10.0)


METHODS = ["rectangle", "midpoint", "trapezoid", "simpson", "numerical", "antider", "antider_vec", "Simpson", "TRAPEZOID"]


def strategy(tier):
    fam = st.sampled_from(list(FAMILIES))

    def with_fam(f):
        return st.fixed_dictionaries({
            "family": st.just(f), "params": _params(f), "params2": _params(f), "edges": _edges(), "edges2": _edges(),
            "method": st.sampled_from(METHODS), "density": st.booleans(),
            "via": st.sampled_from(["model", "model", "fit"]),
            "passing": st.sampled_from(["fresh", "fresh", "same_list", "same_array"]),
            # unit of the x axis: edges and the length-like parameters are multiplied by it, polynomial coefficients divided by its powers (same function values)
            "x_scale": st.sampled_from([1.0, 1.0, 1.0, 1e-3, 1e-7, 1e2]),
            # how the data container of a HistFit gets its contents: filled, or bin heights set by hand after n_entries had been read
            "container": st.sampled_from(["fill", "fill", "set_bins"]),
            "n_fill": st.integers(1, 40), "n_out": st.integers(0, 5),
            "then": st.lists(st.sampled_from(["set_params", "rebin", "replace_data_same_shape", "replace_data"]), max_size=3),
        })
    return fam.flatmap(with_fam)


# ---- oracle ----------------------------------------------------------------------------------------

def exact_integral(fam, p, edges):
    F = FAMILIES[fam][1]
    e = np.asarray(edges, float)
    return F(e[1:], *p) - F(e[:-1], *p)


def _poly_deriv(c, k):
    c = list(c)
    for _ in range(k):
        c = [i * ci for i, ci in enumerate(c)][1:]
    return c


def _polyval(c, x):
    return sum(ci * x ** i for i, ci in enumerate(c)) if c else 0.0 * x


def expected_and_tol(fam, p, edges, method):
    """returns (expected bin integrals as the method should produce them, absolute tolerance per bin, kind)"""
    e = np.asarray(edges, float)
    a, b = e[:-1], e[1:]
    h = b - a
    I = exact_integral(fam, p, edges)
    xm = np.maximum(np.abs(a), np.abs(b))
    m = method.lower()
    if fam.startswith("poly"):
        c = list(p)
        scale = sum(abs(ci) * xm ** (i + 1) for i, ci in enumerate(c)) + 1e-300
        rnd = 1e-12 * scale + 1e-14
        if m in ("antider", "antider_vec"):
            return I, rnd, "exact"
        if m == "numerical":
            return I, 1e-9 * scale + 1e-12 + (1.5e-8 if np.max(np.abs(I)) < 1e-3 else 0.0), "quad"  # quad stops at max(1.49e-8 absolute, 1.49e-8 relative)
        d1 = _poly_deriv(c, 1)
        d3 = _poly_deriv(c, 3)
        e2 = h ** 2 * (_polyval(d1, b) - _polyval(d1, a))
        e4 = h ** 4 * (_polyval(d3, b) - _polyval(d3, a))
        deg = len(c) - 1
        if m == "simpson":
            if deg > 5:
                raise Discard("degree")
            return I + e4 / 2880.0, rnd * 10, "closed-form"
        if deg > 3:
            # Euler-Maclaurin has one more term for degree 4..5: trapezoid -h^4/720 f''' diff, midpoint +7h^4/5760 f''' diff
            if m == "trapezoid":
                return I + e2 / 12.0 - e4 / 720.0, rnd * 10, "closed-form"
            return I - e2 / 24.0 + 7.0 * e4 / 5760.0, rnd * 10, "closed-form"
        if m == "trapezoid":
            return I + e2 / 12.0, rnd * 10, "closed-form"
        return I - e2 / 24.0, rnd * 10, "closed-form"
    # non-polynomial: textbook bounds with analytic derivative maxima
    if fam in ("normal", "mix"):
        mu, sigma = p[0], p[1]
        w = p[2] if fam == "mix" else 1.0
        M2 = w * 1.0 / (sigma ** 3 * math.sqrt(2 * math.pi))
        M4 = w * 3.0 / (sigma ** 5 * math.sqrt(2 * math.pi))
        scale = np.abs(I) + 1e-3
    else:
        tau = p[0]
        lo = np.exp(-np.minimum(a, b) / tau)
        M2 = lo / tau ** 3
        M4 = lo / tau ** 5
        scale = np.abs(I) + np.abs(FAMILIES[fam][1](a, *p)) + 1e-3
    rnd = 1e-11 * scale
    if m in ("antider", "antider_vec"):
        return I, rnd, "exact"
    if m == "numerical":
        return I, 1e-7 * scale, "quad"  # scale >= 1e-3: covers quad's absolute 1.49e-8
    if m == "simpson":
        return I, h ** 5 / 2880.0 * M4 * (1 + 1e-9) + rnd, "bound"
    if m == "trapezoid":
        return I, h ** 3 / 12.0 * M2 * (1 + 1e-9) + rnd, "bound"
    return I, h ** 3 / 24.0 * M2 * (1 + 1e-9) + rnd, "bound"


def _bin_eval_arg(method, fam):
    F = FAMILIES[fam][1]
    if method == "antider":
        return F
    if method == "antider_vec":
        return np.vectorize(_scalar_F(F))
    return method


def compare(tag, got, fam, p, edges, method, factor=1.0):
    want, tol, kind = expected_and_tol(fam, p, edges, method)
    got = np.asarray(got, float)
    if got.shape != want.shape:
        raise Violation(f"shape:{method.lower()}", f"{tag}: got shape {got.shape}, {len(edges) - 1} bins")
    diff = np.abs(got - factor * want)
    bad = ~(diff <= abs(factor) * tol)
    if np.any(bad):
        i = int(np.argmax(diff - abs(factor) * tol))
        raise Violation(f"integral:{method.lower()}:{kind}", f"{tag}: family={fam} p={p} bin {i} [{edges[i]!r}, {edges[i + 1]!r}]: got {got[i]!r}, "
                        f"expected {factor * want[i]!r} (+-{abs(factor) * tol[i] if np.ndim(tol) else abs(factor) * tol:.3g}), factor N={factor}")


def _check_width(fam, p, edges, method, labels):
    if fam.startswith("poly"):
        return
    w = p[0] if fam == "expo" else p[1]
    ratio = w / float(np.max(np.diff(edges)))
    if ratio < 0.1:
        labels.add("density_narrower_than_0.1_bin")
    if method.lower() == "numerical" and ratio < 0.025:
        raise Discard("numerical integration of a density narrower than 0.025 bin widths (quad itself is not reliable there)")
    if fam == "expo" and abs(edges[0]) / w > 600:
        raise Discard("exponential overflows at the lower edge")


def _rescale(fam, p, xs):
    if fam.startswith("poly"):
        return [c / xs ** k for k, c in enumerate(p)]
    if fam == "expo":
        return [p[0] * xs]
    return [p[0] * xs, p[1] * xs] + list(p[2:])


def run(case):
    xu = float(case.get("x_scale", 1.0))
    if xu != 1.0:
        case = dict(case, x_scale=1.0, edges=[e * xu for e in case["edges"]], edges2=[e * xu for e in case["edges2"]],
                    params=_rescale(case["family"], [float(v) for v in case["params"]], xu), params2=_rescale(case["family"], [float(v) for v in case["params2"]], xu), _xs=xu)
    xu = float(case.get("_xs", 1.0))
    if xu != 1.0:
        labels_pre = {f"x_unit={xu:g}"}
    else:
        labels_pre = set()
    fam = case["family"]
    f, F = FAMILIES[fam]
    p = [float(v) for v in case["params"]]
    edges = [float(x) for x in case["edges"]]
    if min(np.diff(edges)) < 1e-3 * xu:
        raise Discard("narrow bin")
    method = case["method"]
    passing = case.get("passing", "fresh")
    buf = None
    dens = bool(case["density"])
    labels = set(labels_pre)
    if len(set(np.round(np.diff(edges) / xu, 12))) > 1:
        labels.add("non_uniform")
    if fam.startswith("poly") and int(fam[4:]) >= 2:
        labels.add("poly_deg>=2")
    model_mod = _k("kafe2.fit.histogram.model")
    _check_width(fam, p, edges, method, labels)
    if passing == "same_list":
        buf = list(p)
    elif passing == "same_array":
        buf = np.array(p, float)
    if case["via"] == "model":
        with guard("construct"):
            m = model_mod.HistParametricModel(len(edges) - 1, (edges[0], edges[-1]), f, buf if buf is not None else list(p), bin_edges=list(edges),
                                              bin_evaluation=_bin_eval_arg(method, fam), density=dens)
        with guard("read"):
            got = m.data
        compare("HistParametricModel.data", got, fam, p, edges, method)
        with guard("read"):
            got2 = m.data
        if not np.array_equal(np.asarray(got), np.asarray(got2)):
            raise Violation("reread-differs", "two consecutive reads of HistParametricModel.data differ")
        handed_out, handed_copy = got, np.array(got, copy=True)  # what was handed out is the caller's: it must not change when the model moves on
        for step in case["then"]:
            if step == "set_params":
                p = [float(v) for v in case["params2"]]
                _check_width(fam, p, edges, method, labels)
                with guard("set-parameters"):
                    if buf is not None:
                        # the caller keeps one parameter buffer, updates it in place and assigns it again (a scan loop)
                        buf[:] = p
                        m.parameters = buf
                        labels.add("parameter_buffer_reused_in_place")
                    else:
                        m.parameters = list(p)
                labels.add("reread_after_parameter_change")
            elif step == "rebin":
                edges = [float(x) for x in case["edges2"]]
                if min(np.diff(edges)) < 1e-3 * xu:
                    break
                _check_width(fam, p, edges, method, labels)
                with guard("rebin"):
                    m.rebin(list(edges))
                labels.add("reread_after_rebin")
            else:
                continue
            with guard("read"):
                got = m.data
            compare(f"HistParametricModel.data after {step}", got, fam, p, edges, method)
            if isinstance(handed_out, np.ndarray) and not np.array_equal(handed_out, handed_copy):
                raise Violation("handed-out-array-changed", f"the array returned by HistParametricModel.data before {step} has changed: {handed_copy.tolist()} -> {np.asarray(handed_out).tolist()}")
            if case.get("passing") in ("same_list", "same_array") and isinstance(got, np.ndarray) and got.flags.writeable:
                # ... and the caller may scale what it got: the next read must not be affected
                got *= 3.0
                with guard("read"):
                    again = m.data
                compare(f"HistParametricModel.data after {step}, after the caller scaled the array it had been given", again, fam, p, edges, method)
    else:
        kafe2 = _k("kafe2")
        n_in, n_out = case["n_fill"], case["n_out"]

        def container(ed):
            # deterministic entries: evenly spread inside the range, plus some outside (under/overflow count towards n_entries)
            inside = list(np.linspace(ed[0], ed[-1], n_in + 2)[1:-1])
            w_ = ed[-1] - ed[0]
            outside = [ed[0] - w_ * (1.0 + i) for i in range(n_out // 2)] + [ed[-1] + w_ * (1.0 + i) for i in range(n_out - n_out // 2)]
            if case.get("container") == "set_bins":
                # heights set by hand on a container whose (then different) number of entries had already been asked for
                hc_ = kafe2.HistContainer(n_bins=len(ed) - 1, bin_range=(ed[0], ed[-1]), bin_edges=list(ed), fill_data=inside[:3])
                _ = hc_.n_entries
                heights = [int(1 + (i * 7 + n_in) % 5) for i in range(len(ed) - 1)]
                uf, of = int(n_out // 2), int(n_out - n_out // 2)
                with guard("set_bins"):
                    hc_.set_bins(heights, underflow=uf, overflow=of)
                labels.add("container_set_bins_after_n_entries_read")
                return hc_, int(sum(heights) + uf + of)
            return kafe2.HistContainer(n_bins=len(ed) - 1, bin_range=(ed[0], ed[-1]), bin_edges=list(ed), fill_data=inside + outside), len(inside) + len(outside)

        hc, N = container(edges)
        with guard("construct"):
            fit = kafe2.HistFit(hc, f, bin_evaluation=_bin_eval_arg(method, fam), density=dens)
            fit.set_all_parameter_values(buf if buf is not None else list(p))
        with guard("read"):
            got = fit.model
        compare("HistFit.model", got, fam, p, edges, method, factor=float(N) if dens else 1.0)
        xs = np.array([edges[0], 0.5 * (edges[0] + edges[-1]), edges[-1]])
        with guard("read"):
            dv = fit.eval_model_function_density(xs)
        expect_round("eval_model_function_density", dv, f(xs, *p))
        for step in case["then"]:
            if step == "set_params":
                p = [float(v) for v in case["params2"]]
                _check_width(fam, p, edges, method, labels)
                with guard("set-parameters"):
                    if buf is not None:
                        buf[:] = p
                        fit.set_all_parameter_values(buf)
                        labels.add("parameter_buffer_reused_in_place")
                    else:
                        fit.set_all_parameter_values(list(p))
                labels.add("reread_after_parameter_change")
            elif step in ("replace_data", "replace_data_same_shape"):
                if step == "replace_data_same_shape":
                    # same number of bins and same outer range, different inner edges
                    old = np.asarray(edges)
                    inner = old[1:-1]
                    if len(inner) == 0:
                        continue
                    new_inner = inner + 0.37 * np.minimum(np.diff(old)[:-1], np.diff(old)[1:]) * (1 if len(inner) % 2 else -1)
                    edges = [old[0]] + list(new_inner) + [old[-1]]
                else:
                    edges = [float(x) for x in case["edges2"]]
                if min(np.diff(edges)) < 1e-3 * xu:
                    break
                _check_width(fam, p, edges, method, labels)
                hc, N = container(edges)
                with guard("data-replacement"):
                    fit.data = hc
                labels.add("reread_after_data_replacement")
            else:
                continue
            with guard("read"):
                got = fit.model
            compare(f"HistFit.model after {step}", got, fam, p, edges, method, factor=float(N) if dens else 1.0)
        labels.add("via_fit")
    labels.add(method.lower())
    nontrivial = bool(labels & {"non_uniform", "poly_deg>=2", "reread_after_parameter_change", "reread_after_rebin", "reread_after_data_replacement"})
    return {"nontrivial": nontrivial, "labels": sorted(labels)}


SUBS = [
    Sub("integrals", strategy, run, quick=8000, thorough=200000,
        about="bin contents vs closed-form integral / closed-form quadrature error / textbook bounds, incl. re-reads after changes"),
]


def extra(tier, seed):
    """thorough tier: coverage-guided campaign (atheris / libFuzzer) over the same strategy and oracle, see kverif/fuzz.py"""
    from ..fuzz import thorough_extra

    return thorough_extra(PROPERTY, [("integrals", 20000, 16)], tier, seed)
