"""C18 - a plot draws exactly the fit's numbers.

plots    1-3 fitted problems of one type (xy / indexed / histogram / unbinned) on one kafe2.Plot, with one of {no extra panel, ratio, residual,
         pull}, symmetric or asymmetric parameter errors in the legend, one figure or separate figures, linear or log axes.  After Plot.plot()
         the matplotlib artists returned by plot() (and reachable from Plot.axes / Plot.figures) are read back and compared with numbers computed
         by the harness' own numpy reference (kverif/fitspec.py Ref) at the fit's current parameter values and reported covariance matrix:
           data markers / histogram bars / unbinned data ticks      == data coordinates
           x error bars                                             == +- total pointwise x uncertainty (histogram: the bin)
           y error bars                                             == +- sqrt(total pointwise y uncertainty^2 + counts [Poisson-type costs])
           model line / density line                                == model function at the current parameters on the artist's own x grid,
                                                                       which must cover the data range
           histogram model bars / indexed model steps               == model prediction per bin / index
           uncertainty band (xy)                                    == model +- sqrt(diag(J C J^T)) with the analytic Jacobian J
           ratio / residual / pull markers, bars and bands          == d/m, d-m, (d-m)/sigma with the sigma of the y error bars
           legend info text                                         == parameter names, values, (asymmetric) uncertainties, gof / ndf / probability
                                                                       of that fit (each shown number within half a unit of its last digit)
"""
import importlib
import re
from decimal import Decimal

import numpy as np
from hypothesis import strategies as st

from .. import fitspec as fs
from .. import models as M
from .. import strategies as S
from ..core import Discard, Violation, guard, round_close
from ..runner import Sub
from .c17 import Shown, _LNUM, _parse_formatted, half_unit_ok

PROPERTY = "C18"
RULE = ("generated fitted problems plotted with generated options; non-trivial = at least one of {x uncertainties, model-referenced or relative "
        "source, Poisson-type cost, extra panel, several fits, asymmetric errors, log axis, fixed parameter}; distinct by case hash")
ASSUMPTIONS = [
    "artist data (Line2D data, error-bar segments, polygon vertices, bar patches, legend strings) is inspected, not the rasterised image",
    "coordinates are compared at rounding precision (1e-9 relative to the magnitude of the plotted quantity); the band's half-width at 1e-3 relative "
    "(kafe2 differentiates the model numerically with respect to the parameters: 4th-order differences with a step of 1 % of the parameter)",
    "the uncertainty in the pull panel is the one drawn as the data's y error bar (total pointwise y uncertainty, in quadrature with sqrt(counts) for "
    "Poisson-type cost functions)",
    "the histogram density line is compared with density(x) times a constant; for equal-width bins the constant must be n_entries x bin width "
    "(bin width for density=False)",
    "axis limits, tick positions, colours and the cosmetic x ticks of the pull panel are not part of the property",
    "legend numbers: a displayed number must be within half a unit of its own last displayed digit of the fit's number (C17 judges the rounding rules)",
]

POISSON_COSTS = fs.NLL_POISSON | fs.NLLR_POISSON | fs.GA_COV | fs.GA_POINT


def _k(name):
    import kafe2  # noqa

    return importlib.import_module(name)


# ---------------------------------------------------------------------------------------------------
# generator

@st.composite
def strat_plots(draw, tier="quick"):
    t = draw(st.sampled_from(["xy", "xy", "xy", "indexed", "hist", "hist", "unbinned"]))
    n_fits = draw(st.sampled_from([1, 1, 1, 2, 2, 3]))
    asym = draw(st.sampled_from([False, False, True]))
    specs = []
    for _ in range(n_fits):
        mini = "iminuit" if asym else draw(st.sampled_from(["iminuit", "iminuit", "scipy"]))
        if t == "xy":
            if draw(st.integers(0, 3)) == 0:
                spec = draw(S.xy_spec(families=["line", "quad", "expo"], costs=("nll", "nllr"), n_sources=(0, 2), minimizers=(mini,), poisson_data=True, x_errors=False,
                                      model_sources=False, constraints=False, min_points=5))
            else:
                spec = draw(S.xy_spec(families=["line", "quad", "cubic", "expo", "sincos", "power", "lorentz"], costs=("chi2", "chi2", "chi2_covariance", "nll_gaussian"),
                                      n_sources=(1, 4), minimizers=(mini,), min_points=5, sigma_rel=(0.01, 0.08), y_scales=(None, None, None, 1e-6, 1e-3, 1e4)))
                if not any((s.get("axis") or "y") == "y" and not s["relative"] and s.get("enabled", True) and s.get("rho", 0) < 1 and s["kind"] == "simple"
                           for s in spec["sources"]):  # a plain y source of either reference keeps the problem well-posed (model-only mixes are wanted)
                    spec["sources"].insert(0, {"name": "base", "ref": "data", "axis": "y", "kind": "simple", "scalar": True, "err": [spec["sigma"]] * 8, "rho": 0.0, "relative": False,
                                               "enabled": True})
        elif t == "indexed":
            spec = draw(S.indexed_spec(costs=("chi2",), n_sources=(1, 3), minimizers=(mini,), nonlinear=True))
            if not any(not s["relative"] and s.get("enabled", True) and s.get("rho", 0) < 1 and s["kind"] == "simple" for s in spec["sources"]):
                spec["sources"].insert(0, {"name": "base", "ref": "data", "axis": None, "kind": "simple", "scalar": True, "err": [spec["sigma"]] * 8, "rho": 0.0, "relative": False,
                                           "enabled": True})
        elif t == "hist":
            spec = draw(S.hist_spec(costs=("nll", "nllr", "chi2", "gauss_approximation"), densities=("normal", "expon", "lin_density"), n_sources=(0, 2), minimizers=(mini,),
                                    bin_evaluations=("simpson", "numerical", "antider")))
            if spec["cost"] in ("nll", "nllr"):
                spec["sources"] = []
            elif spec["cost"] == "chi2" and not spec["sources"]:
                spec["sources"] = [{"name": "base", "ref": "data", "axis": None, "kind": "simple", "scalar": True, "err": [1.5] * 8, "rho": 0.0, "relative": False, "enabled": True}]
        else:
            spec = draw(S.unbinned_spec(minimizers=(mini,)))
        specs.append(spec)
    panel = "none" if t == "unbinned" else draw(st.sampled_from(["none", "ratio", "residual", "pull"]))
    return {"type": t, "specs": specs, "panel": panel, "asym": asym, "separate": draw(st.booleans()) if n_fits > 1 else False, "x_log": draw(st.sampled_from([False, False, True])),
            "y_log": draw(st.sampled_from([False, False, False, True])),
            # plot again with the *same* Plot object after the fits changed (one more parameter fixed where it is, fitted again)
            "replot": draw(st.sampled_from([False, False, True])),
            # several xy fits of the same model to different data, built around ONE wrapped model function object
            "share_model": draw(st.sampled_from([False, False, True])) if (t == "xy" and n_fits > 1) else False}


# ---------------------------------------------------------------------------------------------------
# reading artists

def _eq(a, b, factor=1.0, scale=None):
    a, b = np.asarray(a, float), np.asarray(b, float)
    if a.shape != b.shape:
        return False
    return bool(round_close(a, b, scale=scale, factor=factor))


def _errorbar_parts(eb):
    """(marker x, marker y, list of (orientation, lo, hi, fixed coordinate)) of a matplotlib ErrorbarContainer"""
    data_line, _caps, barcols = eb.lines
    mx = None if data_line is None else np.asarray(data_line.get_xdata(), float)
    my = None if data_line is None else np.asarray(data_line.get_ydata(), float)
    bars = []
    for col in barcols:
        seg = np.asarray(col.get_segments(), float)  # (n, 2, 2)
        if seg.ndim != 3 or seg.shape[1:] != (2, 2):
            raise RuntimeError(f"unexpected error-bar segments of shape {seg.shape}")
        dx, dy = np.abs(seg[:, 1, 0] - seg[:, 0, 0]), np.abs(seg[:, 1, 1] - seg[:, 0, 1])
        if np.all(dy == 0) and np.any(dx > 0):
            kind = "h"
        elif np.all(dx == 0) and np.any(dy > 0):
            kind = "v"
        elif np.all(dx == 0) and np.all(dy == 0):
            kind = "0"
        else:
            kind = "?"
        bars.append((kind, seg))
    return mx, my, bars


def _bars(bars, orientation):
    """lo, hi, position arrays of the bars with the given orientation ('h' / 'v'); degenerate (all zero length) collections match either"""
    for kind, seg in bars:
        if kind == orientation:
            if orientation == "h":
                return np.minimum(seg[:, 0, 0], seg[:, 1, 0]), np.maximum(seg[:, 0, 0], seg[:, 1, 0]), seg[:, 0, 1]
            return np.minimum(seg[:, 0, 1], seg[:, 1, 1]), np.maximum(seg[:, 0, 1], seg[:, 1, 1]), seg[:, 0, 0]
    return None


def _degenerate(bars):
    return [seg for kind, seg in bars if kind == "0"]


def _check_errorbar(tag, eb, x, y, xerr, yerr, y_lo=None, y_hi=None, check_x_bars=True, y_scale=None):
    """markers at (x, y); horizontal bars x -+ xerr (if xerr is not None); vertical bars y -+ yerr or [y_lo, y_hi]"""
    if type(eb).__name__ != "ErrorbarContainer":
        raise Violation(f"{tag}:artist", f"expected error bars, found {type(eb).__name__}")
    mx, my, bars = _errorbar_parts(eb)
    sc_x, sc_y = float(np.max(np.abs(x))) + 1e-300, max(float(np.max(np.abs(y))), y_scale or 0.0) + 1e-300  # y_scale: size of the terms a difference was formed from
    if mx is None or not _eq(mx, x, scale=sc_x) or not _eq(my, y, scale=sc_y):
        raise Violation(f"{tag}:markers", f"markers at x={None if mx is None else mx.tolist()} y={None if my is None else my.tolist()}, expected x={np.asarray(x).tolist()} y={np.asarray(y).tolist()}")
    if any(k_ == "?" for k_, _ in bars):
        raise Violation(f"{tag}:bars", "error-bar segments are neither horizontal nor vertical")
    deg = _degenerate(bars)
    if check_x_bars and xerr is not None:
        xe = np.broadcast_to(np.asarray(xerr, float), np.shape(x))
        hb = _bars(bars, "h")
        if hb is None:
            if np.any(xe > 0) or not deg:
                raise Violation(f"{tag}:x-bars", f"no horizontal bars drawn, expected half-lengths {xe.tolist()}")
        else:
            lo, hi, pos = hb
            if not (_eq(lo, x - xe, scale=sc_x) and _eq(hi, x + xe, scale=sc_x) and _eq(pos, y, scale=sc_y)):
                raise Violation(f"{tag}:x-bars", f"horizontal bars from {lo.tolist()} to {hi.tolist()}, expected {(x - xe).tolist()} to {(x + xe).tolist()}")
    if yerr is not None or y_lo is not None:
        if y_lo is None:
            ye = np.broadcast_to(np.asarray(yerr, float), np.shape(y))
            y_lo, y_hi = y - ye, y + ye
        vb = _bars(bars, "v")
        if vb is None:
            if np.any(y_hi - y_lo > 0) or not deg:
                raise Violation(f"{tag}:y-bars", f"no vertical bars drawn, expected {y_lo.tolist()} to {y_hi.tolist()}")
        else:
            lo, hi, pos = vb
            if not (_eq(lo, y_lo, scale=sc_y) and _eq(hi, y_hi, scale=sc_y) and _eq(pos, x, scale=sc_x)):
                raise Violation(f"{tag}:y-bars", f"vertical bars from {lo.tolist()} to {hi.tolist()}, expected {np.asarray(y_lo).tolist()} to {np.asarray(y_hi).tolist()} "
                                                 f"(half-lengths drawn {((hi - lo) / 2).tolist()})")
    elif _bars(bars, "v") is not None:
        raise Violation(f"{tag}:y-bars", "vertical bars drawn although the fit has no y uncertainty")


def _line_xy(artist):
    if isinstance(artist, (list, tuple)):
        if len(artist) != 1:
            raise RuntimeError(f"expected one line, found {len(artist)}")
        artist = artist[0]
    if type(artist).__name__ != "Line2D":
        raise Violation("line:artist", f"expected a line, found {type(artist).__name__}")
    return np.asarray(artist.get_xdata(), float), np.asarray(artist.get_ydata(), float)


def _band_xy(poly):
    """x, lower, upper of a fill_between polygon (matplotlib layout: start, lower forward, end, upper backward, close)"""
    paths = poly.get_paths()
    if len(paths) != 1:
        raise RuntimeError(f"band consists of {len(paths)} polygons")
    v = np.asarray(paths[0].vertices, float)
    n = (len(v) - 3) // 2
    if 2 * n + 3 != len(v):
        raise RuntimeError(f"unexpected polygon with {len(v)} vertices")
    lower = v[1:n + 1]
    upper = v[n + 2:2 * n + 2][::-1]
    if not np.array_equal(lower[:, 0], upper[:, 0]):
        raise RuntimeError("polygon layout not understood (x of lower and upper edge differ)")
    return lower[:, 0], lower[:, 1], upper[:, 1]


def _covers(tag, xs, lo, hi, log=False):
    if np.any(np.isnan(xs)):
        raise Violation(f"{tag}:grid-nan", f"x grid of the curve contains NaN: {xs[:3].tolist()} ...")
    if len(xs) < 2 or np.any(np.diff(xs) <= 0):
        raise Violation(f"{tag}:grid", "x grid of the curve is not strictly increasing")
    if xs[0] > lo + 1e-9 * (abs(lo) + abs(hi)) or xs[-1] < hi - 1e-9 * (abs(lo) + abs(hi)):
        raise Violation(f"{tag}:grid", f"curve drawn over [{xs[0]}, {xs[-1]}] does not cover the plotted data range [{lo}, {hi}]")


# ---------------------------------------------------------------------------------------------------
# legend

def _info_texts(fig):
    out = []
    for leg in fig.legends:
        for t in leg.get_texts():
            s = t.get_text()
            if "\n" in s:
                out.append(s)
    return out


_NONFINITE = r"[-+]?(?:inf|nan)"


def _num_ok(token, true, what, tag, unit=None):
    if re.fullmatch(_NONFINITE, token):
        if np.isfinite(true) or (np.isnan(true) != ("nan" in token)) or (np.isinf(true) and (true < 0) != token.startswith("-")):
            raise Violation(f"{tag}:{what}", f"legend shows {token!r}, the fit's number is {float(true)!r}")
        return None
    sh = Shown(token)
    if not np.isfinite(true):
        raise Violation(f"{tag}:{what}", f"legend shows {token!r}, the fit's number is {float(true)!r}")
    if not half_unit_ok(sh, float(true), unit=unit):
        raise Violation(f"{tag}:{what}", f"legend shows {token!r}, the fit's number is {float(true)!r}")
    return sh


def _check_info_text(tag, text, fit, names, asym):
    lines = [ln.strip() for ln in text.split("\n") if ln.strip()]
    fmts = fit.model_function.formatter.par_formatters if hasattr(fit, "model_function") else []
    latex_names = [pf.latex_name for pf in fmts]
    vals = np.asarray(fit.parameter_values, float)
    errs = None if fit.parameter_errors is None else np.asarray(fit.parameter_errors, float)
    fixed = set(fit._fitter.fixed_parameters)
    asym_errs = fit.asymmetric_parameter_errors if asym else None
    seen = 0
    for i, (nm, ln_) in enumerate(zip(names, latex_names)):
        pre = f"${ln_}$ = "
        cand = [ln for ln in lines if ln.startswith(pre)]
        if len(cand) != 1:
            raise Violation(f"{tag}:legend-parameter-missing", f"no unique line for parameter {nm} ({pre!r}) in {text!r}")
        seen += 1
        body = cand[0][len(pre):]
        p = _parse_formatted(body, True, None)
        if nm in fixed:
            if p["kind"] != "fixed":
                raise Violation(f"{tag}:legend-fixed", f"fixed parameter {nm} shown as {cand[0]!r}")
            _num_ok(p["val"].token, vals[i], f"legend-value[{nm}]", tag)
            continue
        if p["kind"] == "fixed":
            raise Violation(f"{tag}:legend-fixed", f"free parameter {nm} shown as fixed")
        if asym:
            if p["kind"] != "asym":
                raise Violation(f"{tag}:legend-asymmetric", f"asymmetric errors requested, parameter {nm} shown as {cand[0]!r}")
            dn, up = float(asym_errs[i][0]), float(asym_errs[i][1])
            s_dn = _num_ok(p["down"].token, abs(dn), f"legend-error-down[{nm}]", tag)
            s_up = _num_ok(p["up"].token, abs(up), f"legend-error-up[{nm}]", tag)
            unit = max(s_dn.unit, s_up.unit, p["val"].unit)
        else:
            if p["kind"] != "sym":
                raise Violation(f"{tag}:legend-uncertainty-missing", f"parameter {nm} shown as {cand[0]!r}")
            s_e = _num_ok(p["err"].token, errs[i], f"legend-error[{nm}]", tag)
            unit = max(s_e.unit, p["val"].unit)
        _num_ok(p["val"].token, vals[i], f"legend-value[{nm}]", tag, unit=unit)
    # goodness of fit
    gof, ndf, cost = fit.goodness_of_fit, fit.ndf, float(fit.cost_function_value)
    prob = fit.chi2_probability
    found_gof = False
    for ln in lines:
        if "hookrightarrow" not in ln:
            continue
        m = re.search(rf"= ({_LNUM}|{_NONFINITE}) / ({_LNUM}) = ({_LNUM}|{_NONFINITE})\$", ln)
        if m:
            if gof is None:
                raise Violation(f"{tag}:legend-gof", f"legend shows {ln!r} but the fit has no goodness of fit")
            _num_ok(m.group(1), gof, "legend-gof", tag)
            if Decimal(m.group(2)) != Decimal(int(ndf)):
                raise Violation(f"{tag}:legend-ndf", f"legend shows ndf {m.group(2)}, the fit has {ndf}")
            _num_ok(m.group(3), gof / ndf if ndf else np.nan, "legend-gof-per-ndf", tag)
            found_gof = True
            continue
        m = re.search(rf"probability =\}}\$\$({_LNUM}|{_NONFINITE})\$", ln)
        if m:
            _num_ok(m.group(1), prob, "legend-probability", tag)
            continue
        m = re.search(rf"= ({_LNUM}|{_NONFINITE})\$$", ln)
        if m:
            _num_ok(m.group(1), cost, "legend-cost", tag)
            continue
        raise Violation(f"{tag}:legend-unparsable", f"{ln!r}")
    if gof is not None and fit.errors_valid and not found_gof:
        raise Violation(f"{tag}:legend-gof-missing", f"no 'gof / ndf' entry in {text!r}")
    return seen


# ---------------------------------------------------------------------------------------------------
# the check

def _hist_rule(ref, spec):
    """the documented bin-evaluation rules of the histogram model (Ref.model integrates exactly)"""
    rule = spec.get("bin_evaluation", "antider")
    if rule not in ("simpson", "rectangle", "midpoint", "trapezoid"):
        return
    ed = ref.edges
    w, c = np.diff(ed), 0.5 * (ed[1:] + ed[:-1])
    scale = lambda: (ref.n_entries if spec.get("density", True) else 1.0)  # noqa: E731

    def model(p):
        pc = ref.pvec(p)
        fe, fc = ref.dens(ed, pc), ref.dens(c, pc)
        if rule == "simpson":
            integ = w / 6.0 * (fe[:-1] + 4.0 * fc + fe[1:])
        elif rule == "trapezoid":
            integ = w / 2.0 * (fe[:-1] + fe[1:])
        else:
            integ = w * fc
        return integ * scale()
    ref.model = model


def _expected(spec, fit):
    """reference numbers of one fit at its current parameters"""
    ref = fs.Ref(spec)
    if spec["type"] == "hist":
        _hist_rule(ref, spec)
    names = fs.par_names(spec)
    p = dict(zip(names, [float(v) for v in fit.parameter_values]))
    e = {"ref": ref, "p": p, "names": names, "model": np.asarray(ref.model(p), float), "poisson": spec["cost"] in POISSON_COSTS and spec["type"] != "unbinned"}
    t = spec["type"]
    if t == "unbinned":
        e["x"] = np.asarray(spec["samples"], float)
        return e
    e["d"] = np.asarray(ref.d, float)
    vy = np.sqrt(np.clip(np.diag(ref.axis_cov("y", p)), 0, None))
    e["sig_y"] = np.sqrt(vy ** 2 + (e["d"] if e["poisson"] else 0.0))
    e["has_y"] = bool(np.any(e["sig_y"] > 0))
    if t == "xy":
        e["x"] = np.asarray(spec["x"], float)
        e["sig_x"] = np.sqrt(np.clip(np.diag(ref.axis_cov("x", p)), 0, None))
    elif t == "indexed":
        e["x"] = np.arange(ref.n, dtype=float)
        e["sig_x"] = None
    else:
        ed = np.asarray(spec["edges"], float)
        e["x"] = 0.5 * (ed[1:] + ed[:-1])
        e["sig_x"] = 0.5 * (ed[1:] - ed[:-1])
        e["edges"] = ed
    return e


def _by_type(res, axes_key, fit_index):
    out = {}
    for pl in res.get(axes_key, {}).get("plots", []):
        if pl["fit_index"] == fit_index:
            out[pl["type"]] = pl["artist"]
    return out


def _check_fit(i, spec, fit, res, axes, case, e):
    t = spec["type"]
    tag = f"{t}[{spec['cost']}]"
    main = _by_type(res, "main", i)
    ref, p = e["ref"], e["p"]
    pc = ref.pvec(p)
    # ---- data
    if t == "unbinned":
        art = main.get("data")
        if type(art).__name__ != "LineCollection":
            raise Violation(f"{tag}:data:artist", f"{type(art).__name__}")
        seg = np.asarray(art.get_segments(), float)
        xs0, xs1 = seg[:, 0, 0], seg[:, 1, 0]
        if not (_eq(np.sort(xs0), np.sort(e["x"])) and np.array_equal(xs0, xs1)):
            raise Violation(f"{tag}:data:ticks", f"data ticks at {xs0.tolist()}, samples {e['x'].tolist()}")
    else:
        art = main.get("data")
        if type(art).__name__ == "ErrorbarContainer":
            _check_errorbar(f"{tag}:data", art, e["x"], e["d"], e["sig_x"], e["sig_y"] if e["has_y"] else None)
        elif not e["has_y"] and t == "indexed":
            lx, ly = _line_xy(art)
            if not (_eq(lx, e["x"]) and _eq(ly, e["d"])):
                raise Violation(f"{tag}:data:markers", f"{lx.tolist()} {ly.tolist()}")
        else:
            raise Violation(f"{tag}:data:artist", f"expected error bars, found {type(art).__name__}")
    # ---- model
    lo, hi = float(np.min(e["x"])), float(np.max(e["x"]))
    if t in ("xy", "unbinned"):
        lx, ly = _line_xy(main.get("model_line"))
        _covers(f"{tag}:model_line", lx, lo, hi)
        if t == "xy":
            want = ref.fam.f(lx, pc) * (ref.y_scale or 1.0)
        else:
            want = ref.dens(lx, pc)
        if not _eq(ly, want, factor=10, scale=float(np.max(np.abs(want)))):
            j = int(np.argmax(np.abs(ly - want)))
            raise Violation(f"{tag}:model_line", f"curve at x={lx[j]!r} is {ly[j]!r}, model function at the fit's parameters gives {want[j]!r}")
    if t == "xy":
        band = main.get("model_error_band")
        cov = fit.parameter_cov_mat
        if band is None:
            if fit.errors_valid and cov is not None:
                raise Violation(f"{tag}:band:missing", "no uncertainty band drawn although the fit has valid errors")
        else:
            bx, blo, bhi = _band_xy(band)
            _covers(f"{tag}:band", bx, lo, hi)
            ev, ee = np.asarray(fit.parameter_values, float), np.asarray(fit.parameter_errors, float)
            free = np.array([nm not in fit._fitter.fixed_parameters for nm in e["names"]])
            if not ref.fam.linear and np.any(ee[free] > 0.3 * np.abs(ev[free])):
                e["band_loose"] = True  # kafe2's numerical parameter derivative is only accurate to ~1 % for parameters that are not determined
            if not ref.fam.linear and np.any(ee[free] > np.abs(ev[free])):
                band = None  # uncertainty larger than the value: the derivative step (1 % of the uncertainty) leaves the region where the model is smooth
                e["band_undetermined"] = True
        if band is not None:
            J = ref.fam.jac(bx, pc) * (ref.y_scale or 1.0)  # canonical order
            order = [ref.canon.index(nm) for nm in e["names"]]
            J = J[order]
            C = np.asarray(cov, float)
            half = np.sqrt(np.clip(np.einsum("ik,ij,jk->k", J, C, J), 0, None))
            mid = ref.fam.f(bx, pc) * (ref.y_scale or 1.0)
            sc = float(np.max(np.abs(mid)) + np.max(half))
            tol = 1e-6 * sc + (3e-2 if e.get("band_loose") else 1e-3) * half
            if np.any(np.abs(blo - (mid - half)) > tol) or np.any(np.abs(bhi - (mid + half)) > tol):
                j = int(np.argmax(np.maximum(np.abs(blo - (mid - half)), np.abs(bhi - (mid + half)))))
                raise Violation(f"{tag}:band", f"band at x={bx[j]!r} is [{blo[j]!r}, {bhi[j]!r}], model +- propagated parameter uncertainty is [{mid[j] - half[j]!r}, {mid[j] + half[j]!r}]")
            e["band"] = (bx, mid, half)
    if t == "indexed":
        first = main.get("model")
        ax = axes["main"]
        lines = list(ax.lines)
        if first not in lines:
            raise Violation(f"{tag}:model:artist", "model steps not found in the axes")
        k0 = lines.index(first)
        steps = lines[k0:k0 + ref.n]
        got = [(np.asarray(l_.get_xdata(), float), np.asarray(l_.get_ydata(), float)) for l_ in steps]
        ok = len(got) == ref.n and all(len(gx) == 2 and _eq(gx, [j - 0.5, j + 0.5], scale=ref.n) and _eq(gy, [e["model"][j]] * 2, scale=float(np.max(np.abs(e["model"]))))
                                       for j, (gx, gy) in enumerate(got))
        if not ok:
            raise Violation(f"{tag}:model:steps", f"model steps {[(gx.tolist(), gy.tolist()) for gx, gy in got]}, model {e['model'].tolist()}")
    if t == "hist":
        bars = main.get("model")
        if type(bars).__name__ != "BarContainer":
            raise Violation(f"{tag}:model:artist", f"{type(bars).__name__}")
        hts = np.array([b.get_height() for b in bars.patches], float)
        ctr = np.array([b.get_x() + 0.5 * b.get_width() for b in bars.patches], float)
        wid = np.array([b.get_width() for b in bars.patches], float)
        tol_model = 1e4 if spec.get("bin_evaluation") == "numerical" else 50  # numerical bin integration (scipy quad): 1e-5 relative
        if len(hts) != ref.n or not _eq(ctr, e["x"], scale=float(np.max(np.abs(e["edges"])))) or np.any(wid > 2 * e["sig_x"] * (1 + 1e-9)) or np.any(wid <= 0):
            raise Violation(f"{tag}:model:bars", f"bars centred at {ctr.tolist()} widths {wid.tolist()}, bins {e['edges'].tolist()}")
        if not _eq(hts, e["model"], factor=tol_model, scale=float(np.max(np.abs(e["model"])))):
            raise Violation(f"{tag}:model:heights", f"bar heights {hts.tolist()}, model prediction {e['model'].tolist()}")
        lx, ly = _line_xy(main.get("model_density"))
        _covers(f"{tag}:model_density", lx, float(e["edges"][0]), float(e["edges"][-1]))
        dens = ref.dens(lx, pc)
        good = np.abs(dens) > 1e-12 * np.max(np.abs(dens))
        ratio = ly[good] / dens[good]
        if np.any(np.abs(ratio - ratio[0]) > 1e-9 * abs(ratio[0])) or ratio[0] <= 0:
            raise Violation(f"{tag}:model_density", f"density line is not a constant multiple of the model density at the fit's parameters: factors {ratio.min()!r} .. {ratio.max()!r}")
        w = np.diff(e["edges"])
        if np.all(np.abs(w - w[0]) <= 1e-12 * abs(w[0])):
            want_factor = (ref.n_entries if spec.get("density", True) else 1.0) * w[0]
            if abs(ratio[0] - want_factor) > 1e-9 * want_factor:
                raise Violation(f"{tag}:model_density:scale", f"density line scaled by {ratio[0]!r}, expected n_entries x bin width = {want_factor!r}")
    # ---- panels
    panel = case["panel"]
    if panel != "none" and t != "unbinned":
        pan = _by_type(res, panel, i)
        art = pan.get(panel)
        d, m, s = e["d"], e["model"], e["sig_y"]
        ptag = f"{tag}:{panel}"
        if panel == "ratio":
            _check_errorbar(ptag, art, e["x"], d / m, e["sig_x"], np.abs(s / m) if e["has_y"] else None)
        elif panel == "residual":
            _check_errorbar(ptag, art, e["x"], d - m, e["sig_x"], s if e["has_y"] else None, y_scale=float(max(np.max(np.abs(d)), np.max(np.abs(m)))))
        else:
            pull = (d - m) / s
            _check_errorbar(ptag, art, e["x"], pull, None, None, y_lo=np.minimum(pull, 0.0), y_hi=np.maximum(pull, 0.0), check_x_bars=False,
                            y_scale=float(max(np.max(np.abs(d)), np.max(np.abs(m))) / np.min(np.abs(s))))
        if t == "xy" and panel in ("ratio", "residual") and "band" in e:
            b = pan.get(panel + "_error_band")
            if b is None:
                raise Violation(f"{ptag}:band:missing", "no band in the panel although the main plot has one")
            bx, blo, bhi = _band_xy(b)
            gx, mid, half = e["band"]
            if panel == "ratio":
                wlo, whi = 1 - half / mid, 1 + half / mid
            else:
                wlo, whi = -half, half
            sc = float(np.max(np.abs(mid))) if panel == "residual" else 1.0  # absolute floor on the scale of the main plot's band check
            tol = 1e-6 * sc + (3e-2 if e.get("band_loose") else 1e-3) * np.abs(whi - wlo)
            if not np.array_equal(bx, gx) or np.any(np.abs(blo - wlo) > tol) or np.any(np.abs(bhi - whi) > tol):
                j = int(np.argmax(np.maximum(np.abs(blo - wlo), np.abs(bhi - whi)))) if np.array_equal(bx, gx) else 0
                raise Violation(f"{ptag}:band", f"panel band at x={bx[j]!r} is [{blo[j]!r}, {bhi[j]!r}], expected [{wlo[j]!r}, {whi[j]!r}]")


def run_plots(case):
    kafe2 = _k("kafe2")
    import matplotlib.pyplot as plt

    t = case["type"]
    specs = [dict(s, dea="nonlinear") for s in case["specs"]]
    shared_mf = None
    if case.get("share_model") and t == "xy" and len(specs) > 1 and specs[0]["cost"] not in ("nll", "nllr"):
        import copy

        base = specs[0]
        for j in range(1, len(specs)):
            sp = copy.deepcopy(base)
            sp["minimizer"] = specs[j]["minimizer"]
            shift = np.resize([0.9, -0.7, 0.4, -1.1, 0.6, -0.2, 1.0, -0.5], len(sp["y"])) * sp["sigma"] * (1.0 + j)
            sp["y"] = [float(v + d) for v, d in zip(sp["y"], shift)]
            specs[j] = sp
        shared_mf = _k("kafe2.fit._base").ModelFunctionBase(fs.make_model_function(base))
    fits = []
    for spec in specs:
        tb = spec["truth"]
        spec["fixed"] = {nm: (tb[nm] if v is None else v) for nm, v in spec["fixed"].items()}
        with guard(f"build[{t}]"):
            fit = fs.build(spec, model_function=shared_mf)
        try:
            fit.do_fit(asymmetric_parameter_errors=case["asym"])
        except Exception:
            raise Discard("do_fit failed (C05/C06's subject)")
        cov = fit.parameter_cov_mat
        if cov is None or not np.isfinite(fit.cost_function_value) or not np.all(np.isfinite(np.asarray(cov, float))) or not np.all(np.isfinite(np.asarray(fit.parameter_errors, float))):
            raise Discard("fit without a valid result")
        if any(float(er) <= 0 for nm, er in zip(fit.parameter_names, fit.parameter_errors) if nm not in fit._fitter.fixed_parameters):
            raise Discard("fit without a valid result (uncertainty 0 reported for a free parameter: C05/C15's subject, cf. KF-C15-3)")
        if case["asym"] and not np.all(np.isfinite(np.asarray(fit.asymmetric_parameter_errors, float))):
            raise Discard("no valid asymmetric errors")
        _ev = np.linalg.eigvalsh(np.asarray(cov, float))
        if _ev.min() < -1e-9 * max(_ev.max(), 1e-300):
            raise Discard("fit without a valid result (reported parameter covariance matrix is not positive semi-definite: C05/C07's subject; its propagation is NaN in places)")
        fits.append(fit)
    exps = [_expected(s, f) for s, f in zip(specs, fits)]
    # options that need positive coordinates
    x_log = case["x_log"] and t != "indexed" and all(np.min(e_["edges"] if t == "hist" else e_["x"]) > 0 for e_ in exps)
    y_log = case["y_log"] and t != "unbinned" and all(np.all(e_["d"] > 0) and np.all(e_["model"] > 0) for e_ in exps)
    if case["panel"] == "ratio" and any(np.any(e_["model"] == 0) for e_ in exps):
        raise Discard("model prediction of exactly 0: ratio undefined")
    if case["panel"] == "pull" and any(np.any(e_["sig_y"] == 0) for e_ in exps):
        raise Discard("point without uncertainty: pull undefined")
    try:
        with guard(f"Plot[{t}]"):
            plot = kafe2.Plot(fits if len(fits) > 1 else fits[0], separate_figures=case["separate"])
            if x_log:
                plot.x_scale = "log"
            if y_log:
                plot.y_scale = "log"
        kw = {}
        if case["panel"] != "none":
            kw[case["panel"]] = True
        with guard(f"Plot.plot[{t}:{case['panel']}]"):
            results = plot.plot(asymmetric_parameter_errors=case["asym"], **kw)
        def check_all(results, exps, stage=""):
            # every call of plot() appends its new figure(s) to plot.figures / plot.axes: the ones of this call are the last ones
            base = len(plot.figures) - (len(fits) if case["separate"] else 1)
            for i, (spec, fit, e_) in enumerate(zip(specs, fits, exps)):
                fi = i if case["separate"] else 0
                # the fit's numbers did not move while plotting
                p_now = [float(v) for v in fit.parameter_values]
                if p_now != [e_["p"][nm] for nm in e_["names"]]:
                    e_ = _expected(spec, fit)
                try:
                    _check_fit(i, spec, fit, results[fi], plot.axes[base + fi], case, e_)
                    texts = _info_texts(plot.figures[base + fi])
                    k_ = 0 if case["separate"] else i
                    if len(texts) <= k_:
                        raise Violation(f"{t}:legend-info-missing", f"{len(texts)} info texts for {len(fits)} fits")
                    _check_info_text(f"{t}[{spec['cost']}]", texts[k_], fit, e_["names"], case["asym"])
                except Violation as v:
                    if stage:
                        raise Violation(f"{stage}:{v.facet}", f"{stage}: {v.detail}", v.observed, v.expected)
                    raise

        check_all(results, exps)
        replotted = False
        if case.get("replot"):
            changed = False
            for spec, fit in zip(specs, fits):
                free = [nm for nm in fit.parameter_names if nm not in fit._fitter.fixed_parameters]
                if len(free) < 2:
                    continue
                nm = free[-1]
                try:
                    fit.fix_parameter(nm)
                    spec["fixed"][nm] = float(fit.parameter_values[list(fit.parameter_names).index(nm)])
                    fit.do_fit(asymmetric_parameter_errors=case["asym"])
                except Exception:
                    raise Discard("refit failed (C05/C06's subject)")
                cov = fit.parameter_cov_mat
                if cov is None or not np.all(np.isfinite(np.asarray(cov, float))) or not np.all(np.isfinite(np.asarray(fit.parameter_errors, float))) or \
                        any(float(er) <= 0 for n_, er in zip(fit.parameter_names, fit.parameter_errors) if n_ not in fit._fitter.fixed_parameters) or \
                        (case["asym"] and not np.all(np.isfinite(np.asarray(fit.asymmetric_parameter_errors, float)))):
                    raise Discard("refit without a valid result")
                changed = True
            if changed:
                with guard(f"Plot.plot[{t}:{case['panel']}:again]"):
                    results2 = plot.plot(asymmetric_parameter_errors=case["asym"], **kw)
                check_all(results2, [_expected(s_, f_) for s_, f_ in zip(specs, fits)], stage="second-plot-same-object")
                replotted = True
    finally:
        plt.close("all")
    model_only = any(s["sources"] and all(s_["ref"] == "model" for s_ in s["sources"] if s_.get("enabled", True)) for s in specs)
    labels = {t, case["panel"]} | ({"model_sources_only"} if model_only else set()) | ({"several_fits"} if len(fits) > 1 else set()) | ({"separate"} if case["separate"] else set()) | ({"x_log"} if x_log else set()) | \
        ({"y_log"} if y_log else set()) | ({"asym"} if case["asym"] else set()) | ({"poisson"} if any(e_["poisson"] for e_ in exps) else set()) | ({"plotted_again_after_refit"} if replotted else set()) | ({"fits_share_one_model_function_object"} if shared_mf is not None else set())
    nt = (case["panel"] != "none" or len(fits) > 1 or case["asym"] or x_log or y_log or any(e_["poisson"] for e_ in exps) or any(s["fixed"] for s in specs)
          or any(s_.get("axis") == "x" or s_["ref"] == "model" or s_["relative"] for s in specs for s_ in s["sources"]))
    return {"nontrivial": bool(nt), "labels": sorted(labels)}


def _kf_shared_log_range(sub, case, v):
    """KF-C18-1: several fits on one figure with a logarithmic x axis: the shared x range is the union of the linearly padded ranges and can be <= 0,
    the support points of every curve are then NaN"""
    return len(case["specs"]) > 1 and not case["separate"] and case["x_log"] and v.facet.endswith(":grid-nan")


KNOWN = {"KF-C18-1": _kf_shared_log_range}

SUBS = [
    Sub("plots", lambda tier: strat_plots(tier), run_plots, quick=1200, thorough=24000, about="artists of Plot.plot() vs. reference numbers at the fit's parameters"),
]
