"""C15 - results are independent of labelling: point order, parameter order, units.

A case = a problem spec A + a transformation (random permutation of the points; random permutation of the model's parameter list;
a positive unit factor on y applied to data, absolute y sources and either the model output or the unit-carrying parameters with
their constraints / fixed values / limits).  Oracle (metamorphic): cost at corresponding parameter points (rounding precision, the
ln det term shifts by 2 N ln s), and after fitting both: values / errors / covariance mapped accordingly, chi2, ndf, chi2 probability
and unit-free parameters unchanged (MINIMIZER tolerance).
"""
import copy

import numpy as np
from hypothesis import strategies as st

from .. import fitspec as fs
from .. import strategies as S
from ..core import Discard, Violation, guard
from ..runner import Sub

PROPERTY = "C15"
RULE = ("fitted xy / indexed problems x point permutation x parameter permutation x unit factor 1e-4..1e4 x fixed / limited / constrained subsets "
        "x backends; non-trivial = a non-identity parameter permutation together with a fixed, limited or constrained parameter, or a unit "
        "factor != 1 with a correlated source, or a non-identity point permutation with a matrix source; distinct by case hash")
ASSUMPTIONS = [
    "cost at corresponding points compared at 1e-8 relative (+ cond scaling); fit results at MINIMIZER tolerance (0.05 sigma for values, 5 % for "
    "uncertainties with iminuit / 2 % scipy, 1e-2 absolute on chi2, 1e-3 on the probability); covariance entries at twice that, three times more when the "
    "condition number of the parameter correlation matrix exceeds 1e3, not compared beyond 1e4 (accuracy of numerical second derivatives)",
    "unit-carrying parameters per family: all parameters of the linear families, the amplitude of the nonlinear ones",
    "problems whose total covariance is not positive definite / cond > 1e6 are discarded; fits that do not converge in either variant are "
    "discarded (C05/C06's subject)",
]

UNIT_PARS = {"const": ["c"], "line": ["a", "b"], "quad": ["a", "b", "c"], "cubic": ["a", "b", "c", "d"], "sincos": ["a", "b", "c"], "expbase": ["a", "b"],
             "expo": ["A"], "power": ["A"], "gauss": ["A"], "lorentz": ["A"], "sine": ["A"], "logistic": ["L"]}


@st.composite
def strat(draw, tier="quick"):
    mini = draw(st.sampled_from(["iminuit", "iminuit", "scipy"]))
    t = draw(st.sampled_from(["xy", "xy", "xy", "indexed"]))
    if t == "xy" and draw(st.integers(0, 5)) == 0:
        # many points (the other generators stop at 8): the unit factor below then acts on sums / products over 20-120 terms
        spec = draw(S.xy_long_spec(costs=("chi2", "chi2_covariance"), minimizers=(mini,), n_points=(20, 120) if tier == "quick" else (20, 300), y_scales=(None,)))
        n = len(spec["x"])
    elif t == "xy":
        spec = draw(S.xy_spec(families=["line", "quad", "cubic", "sincos", "expo", "power"], costs=("chi2", "chi2", "chi2_covariance"), n_sources=(1, 3), x_errors=True,
                              model_sources=False, limits=True, minimizers=(mini,), min_points=6, sigma_rel=(0.005, 0.05), noise_scale=0.7, permute_params=False))
        n = len(spec["x"])
    else:
        spec = draw(S.indexed_spec(costs=("chi2",), n_sources=(1, 3), model_sources=False, minimizers=(mini,)))
        n = spec["n"]
    if not any(s_["ref"] == "data" and (s_.get("axis") or "y") == "y" and not s_["relative"] and s_.get("enabled", True) and s_.get("rho", 0) < 1 and s_["kind"] == "simple"
               for s_ in spec["sources"]):
        # a plain absolute y source keeps the problem well-posed (a covariance made of projected x errors alone vanishes where the slope does)
        spec["sources"].insert(0, {"name": "base", "ref": "data", "axis": "y" if t == "xy" else None, "kind": "simple", "scalar": True, "err": [spec["sigma"]] * 8, "rho": 0.0,
                                   "relative": False, "enabled": True})
    names = fs.par_names(spec)
    return {"spec": spec, "perm_points": draw(st.permutations(list(range(n)))), "perm_pars": draw(st.permutations(names)),
            "scale": draw(st.one_of(st.just(1.0), st.floats(-4, 4).map(lambda e: 10.0 ** e), st.sampled_from([1e-3, 1e3, 2.0]))),
            "scale_how": draw(st.sampled_from(["model_output", "parameters"])), "pt": draw(st.lists(st.floats(-0.2, 0.2), min_size=4, max_size=4))}


def transform(spec, perm_points, perm_pars, s, how):
    B = copy.deepcopy(spec)
    pp = list(perm_points)
    t = spec["type"]
    n = len(pp)

    def pv(v):
        return [v[i] for i in pp]

    if t == "xy":
        B["x"], B["y"] = pv(spec["x"]), pv(spec["y"])
    else:
        # an indexed model has a fixed row order: permuting points is only meaningful for xy fits
        pp = list(range(n))
    for sB in B["sources"]:
        if sB["kind"] == "simple":
            if not sB.get("scalar"):
                sB["err"] = pv(sB["err"][:n]) + sB["err"][n:]
        else:
            R = np.asarray(sB["R"], float)[:n, :n]
            sB["R"] = R[np.ix_(pp, pp)].tolist()
            sB["e"] = pv(sB["e"][:n])
    # parameter order
    if t == "xy":
        B["order"] = list(perm_pars)
    # units
    unit = set()
    if s != 1.0:
        if t == "xy":
            B["y"] = [v * s for v in B["y"]]
        else:
            return None  # indexed maps have an inhomogeneous constant term: no unit transformation
        for sB in B["sources"]:
            if (sB.get("axis") or "y") == "y" and not sB["relative"]:
                key = "err" if sB["kind"] == "simple" else "e"
                sB[key] = [v * s for v in sB[key]]
        if how == "model_output":
            B["y_scale"] = s
        else:
            unit = set(UNIT_PARS[spec["family"]])
            B["start"] = {nm: v * (s if nm in unit else 1.0) for nm, v in B["start"].items()}
            B["truth"] = {nm: v * (s if nm in unit else 1.0) for nm, v in B["truth"].items()}
            B["fixed"] = {nm: (None if v is None else v * (s if nm in unit else 1.0)) for nm, v in B["fixed"].items()}
            B["limits"] = {nm: [lo * (s if nm in unit else 1.0), hi * (s if nm in unit else 1.0)] for nm, (lo, hi) in B["limits"].items()}
            for c in B["constraints"]:
                if c["kind"] == "simple":
                    if c["par"] in unit:
                        c["value"] = c["value"] * s
                        if not c["relative"]:
                            c["unc"] = c["unc"] * s
                else:
                    f = np.array([s if nm in unit else 1.0 for nm in c["pars"]])
                    c["values"] = [v * fi for v, fi in zip(c["values"], f)]
                    if not c["relative"]:
                        c["e"] = [v * fi for v, fi in zip(c["e"], f)]
    return B, unit


def run(case):
    A = copy.deepcopy(case["spec"])
    s = float(case["scale"])
    tb = A["truth"]
    A["start"] = {nm: tb[nm] + (v - tb[nm]) * 0.5 for nm, v in A["start"].items()}
    for nm, v in list(A["fixed"].items()):
        A["fixed"][nm] = tb[nm] if v is None else v
    res = transform(A, case["perm_points"], case["perm_pars"], s, case["scale_how"])
    if res is None:
        res = transform(A, case["perm_points"], case["perm_pars"], 1.0, case["scale_how"])
        s = 1.0
    B, unit = res
    refA = fs.Ref(A)
    namesA = refA.names
    namesB = fs.par_names(B)
    n = refA.n
    # PD / conditioning at the truth
    try:
        V = refA.total_cov(tb)
        ev = np.linalg.eigvalsh(V)
    except Exception:
        raise Discard("covariance")
    if ev.min() <= 0 or ev.max() / ev.min() > 1e6:
        raise Discard("total covariance not positive definite / cond > 1e6")
    factor = {nm: (s if nm in unit else 1.0) for nm in namesA}
    with guard("build A"):
        fa = fs.build(A)
    with guard("build B"):
        fb = fs.build(B)
    # ---- cost at corresponding points
    pt = case["pt"]
    pA = {nm: (A["fixed"][nm] if nm in A["fixed"] else tb[nm] * (1 + pt[j % 4]) + 0.01 * pt[(j + 1) % 4]) for j, nm in enumerate(namesA)}
    for nm, (lo, hi) in A["limits"].items():
        pA[nm] = min(max(pA[nm], lo), hi)
    pB = {nm: pA[nm] * factor[nm] for nm in namesA}
    with guard("set_parameter_values"):
        fa.set_all_parameter_values([pA[nm] for nm in namesA])
        fb.set_all_parameter_values([pB[nm] for nm in namesB])
    with guard("cost_function_value"):
        ca, cb = float(fa.cost_function_value), float(fb.cost_function_value)
    has_det = A["cost"] in fs.CHI2_COV and refA.has_sources()
    shift = 2.0 * n * np.log(s) if (has_det and s != 1.0) else 0.0
    condf = max(1.0, (ev.max() / ev.min()) / 1e3)
    if np.isfinite(ca) and np.isfinite(cb) and abs((cb - shift) - ca) > 1e-8 * condf * (abs(ca) + abs(shift) + n):
        raise Violation("cost-at-corresponding-point", f"cost A {ca!r}, cost B {cb!r} (expected shift of the ln det term {shift!r}); point perm {case['perm_points']}, parameter order {namesB}, "
                        f"unit factor {s} applied to {case['scale_how']}")
    # ---- fit both
    try:
        fa.set_all_parameter_values([A["start"].get(nm, tb[nm]) if nm not in A["fixed"] else A["fixed"][nm] for nm in namesA])
        fb.set_all_parameter_values([(A["start"].get(nm, tb[nm]) if nm not in A["fixed"] else A["fixed"][nm]) * factor[nm] for nm in namesB])
        fa.do_fit()
        fb.do_fit()
    except Exception:
        raise Discard("do_fit failed (C05/C06's subject)")
    with guard("results"):
        va, ea, Ca = np.asarray(fa.parameter_values, float), np.asarray(fa.parameter_errors, float), fa.parameter_cov_mat
        vb, eb, Cb = np.asarray(fb.parameter_values, float), np.asarray(fb.parameter_errors, float), fb.parameter_cov_mat
        ga, gb = fa.goodness_of_fit, fb.goodness_of_fit
        na, nb = fa.ndf, fb.ndf
        pa, pb = fa.chi2_probability, fb.chi2_probability
    if Ca is None or Cb is None or not np.all(np.isfinite(ea)) or not np.all(np.isfinite(eb)):
        raise Discard("no finite uncertainties")
    free = [nm for nm in namesA if nm not in A["fixed"]]
    if any(nm in A["limits"] and (va[namesA.index(nm)] - A["limits"][nm][0] < 2 * ea[namesA.index(nm)] or A["limits"][nm][1] - va[namesA.index(nm)] < 2 * ea[namesA.index(nm)]) for nm in free):
        raise Discard("optimum within 2 sigma of a limit")
    dyn = any(s_.get("axis") == "x" and s_.get("enabled", True) for s_ in A["sources"])
    if A["type"] == "xy" and (not refA.fam.linear or dyn) and any(ea[namesA.index(nm)] > 0.15 * abs(va[namesA.index(nm)]) for nm in free):
        raise Discard("poorly determined parameter (sigma > 15 % of |value|) in a nonlinear problem: not well-posed")
    iB = {nm: namesB.index(nm) for nm in namesA}
    backend = A["minimizer"]
    etol = 0.05 if backend == "iminuit" else 0.02
    tag = f"point perm {list(case['perm_points'])}, parameter order {namesB} (was {namesA}), unit factor {s} via {case['scale_how']}, fixed {sorted(A['fixed'])}, limits {sorted(A['limits'])}, constraints {[c['kind'] for c in A['constraints']]}"
    if na != nb:
        raise Violation("ndf", f"{na} vs {nb}; {tag}")
    for i, nm in enumerate(namesA):
        f_ = factor[nm]
        if nm in A["fixed"]:
            if vb[iB[nm]] != va[i] * f_:
                raise Violation("fixed-value", f"{nm}: A {va[i]!r}, B {vb[iB[nm]]!r} (factor {f_}); {tag}")
            continue
        if abs(vb[iB[nm]] - va[i] * f_) > 0.05 * ea[i] * f_:
            raise Violation(f"values[{backend}]", f"{nm}: A {va[i]!r} +- {ea[i]!r}, B {vb[iB[nm]]!r} +- {eb[iB[nm]]!r} (expected factor {f_}); {tag}")

    Ca, Cb = np.asarray(Ca, float), np.asarray(Cb, float)
    # numerical second derivatives (HESSE / numdifftools) lose accuracy with the correlation of the parameters (measured on cubic polynomials:
    # 3-8 % against the exact GLS covariance at a condition number of 3e4 of the parameter correlation matrix)
    fidx = [i for i, nm in enumerate(namesA) if nm not in A["fixed"]]
    dA = np.sqrt(np.abs(np.diag(Ca)))[fidx]
    with np.errstate(all="ignore"):
        cond_cor = np.linalg.cond(Ca[np.ix_(fidx, fidx)] / np.outer(dA, dA)) if len(fidx) > 1 and np.all(dA > 0) else 1.0
    ctol = 2 * etol if cond_cor <= 1e3 else (6 * etol if cond_cor <= 1e4 else None)
    for i, ni in enumerate(namesA):
        for j, nj in enumerate(namesA):
            if ctol is None:
                break
            want = Ca[i, j] * factor[ni] * factor[nj]
            if abs(Cb[iB[ni], iB[nj]] - want) > ctol * ea[i] * ea[j] * factor[ni] * factor[nj] + 1e-300:
                raise Violation(f"covariance[{backend}]", f"cov({ni},{nj}): A {Ca[i, j]!r}, B {Cb[iB[ni], iB[nj]]!r} (expected {want!r}); {tag}")
    for i, nm in enumerate(namesA):
        f_ = factor[nm]
        if nm in A["fixed"]:
            continue
        if abs(eb[iB[nm]] - ea[i] * f_) > etol * ea[i] * f_:
            # the HESSE covariance agreed (checked above); with iminuit parameter_errors are MIGRAD's running estimates (KF-C15-3)
            facet = "errors-migrad-estimate[iminuit]" if backend == "iminuit" and abs(eb[iB[nm]] - ea[i] * f_) < 10 * ea[i] * f_ else f"errors[{backend}]"
            raise Violation(facet, f"{nm}: A +-{ea[i]!r}, B +-{eb[iB[nm]]!r} (expected factor {f_}) although the covariance matrices agree "
                            f"(sqrt(diag): A {np.sqrt(np.diag(Ca)).tolist()}, B {np.sqrt(np.diag(Cb)).tolist()}); {tag}")
    if ga is not None and gb is not None and abs(float(ga) - float(gb)) > 1e-2 + 1e-4 * abs(float(ga)):
        raise Violation(f"chi2[{backend}]", f"goodness of fit A {ga!r}, B {gb!r}; {tag}")
    if pa is not None and pb is not None and abs(float(pa) - float(pb)) > 1e-3 + 5e-3 * float(pa):
        raise Violation(f"probability[{backend}]", f"chi2 probability A {pa!r}, B {pb!r}; {tag}")
    labels = {backend, A["type"]}
    ppid = list(case["perm_points"]) == sorted(case["perm_points"]) or A["type"] != "xy"
    parid = namesB == namesA
    special = bool(A["fixed"]) or bool(A["limits"]) or bool(A["constraints"])
    corr = any((s_["kind"] == "matrix" or s_.get("rho", 0) > 0) and s_.get("enabled", True) for s_ in A["sources"])
    if not ppid:
        labels.add("points_permuted")
    if not parid:
        labels.add("parameters_permuted")
    if s != 1.0:
        labels.add(f"unit_factor_via_{case['scale_how']}")
    nontrivial = (not parid and special) or (s != 1.0 and corr) or (not ppid and any(s_["kind"] == "matrix" for s_ in A["sources"]))
    return {"nontrivial": bool(nontrivial), "labels": sorted(labels)}


KNOWN = {
    # scipy backend: the convergence threshold handed to scipy.optimize.minimize (tol=1e-6 -> gtol of BFGS) is an absolute gradient norm in
    # parameter units: with unit-carrying parameters expressed in a unit that makes them large (factor 1e4) the search stops ~0.1 sigma early
    "KF-C15-4": lambda sub, case, v: case["spec"].get("minimizer") == "scipy" and float(case["scale"]) != 1.0 and case["scale_how"] == "parameters"
    and v.facet in ("values[scipy]", "chi2[scipy]", "probability[scipy]"),
    # iminuit backend: fit.parameter_errors are Minuit.errors as left by MIGRAD (a running estimate), not sqrt(diag(parameter_cov_mat)) from
    # HESSE; on flat / nearly perfect fits the estimate depends on the path of the minimisation and differs between equivalent labellings
    # by factors of a few although the HESSE covariance agrees.  Bug model: covariance facet passed, errors differ by less than a factor 10.
    "KF-C15-3": lambda sub, case, v: case["spec"].get("minimizer") == "iminuit" and v.facet == "errors-migrad-estimate[iminuit]",
    # same root cause as KF-C06-1: scipy + parameter limits (L-BFGS-B with tol used as relative function-reduction threshold) stops early;
    # how early depends on the scale of the parameters, so the two labellings end at different points
    "KF-C15-1": lambda sub, case, v: case["spec"].get("minimizer") == "scipy" and bool(case["spec"].get("limits")) and v.facet in ("values[scipy]", "chi2[scipy]", "probability[scipy]", "errors[scipy]", "covariance[scipy]"),
    # same root cause as KF-C07-3: the scipy backend differentiates the cost with numdifftools' default (absolute) step sizes, which are not
    # scaled with the parameters: expressing the unit-carrying parameters in another unit changes the reported uncertainties
    "KF-C15-2": lambda sub, case, v: case["spec"].get("minimizer") == "scipy" and float(case["scale"]) != 1.0 and case["scale_how"] == "parameters" and v.facet in ("errors[scipy]", "covariance[scipy]"),
}

SUBS = [
    Sub("labelling", lambda tier: strat(tier), run, quick=1920, thorough=30000, about="permuted points / permuted parameters / unit factor: fitted twin problems agree"),
]
