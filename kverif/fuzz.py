"""Coverage-guided campaigns (atheris / libFuzzer) that reuse the sub-checks unchanged.

  python -m kverif.fuzz <Cnn> <sub> <runs> <seed> <shard> <outdir> [corpus|empty]     (one libFuzzer process)

The fuzz target is `test.hypothesis.fuzz_one_input` of a Hypothesis test built from the sub-check's own strategy, so
the bytes libFuzzer mutates are Hypothesis' choice sequence: generators and oracles are the ones of the property-based
tier, and a failing input is saved as the *decoded* JSON case (replayable with ./check Cnn --replay, no atheris
needed).  kafe2 is instrumented after import (atheris.instrument_imports trips over kafe2's package-attribute
shadowing): every function, method and property accessor defined in the modules listed in TARGETS is rewritten with
atheris.instrument_func, so libFuzzer's coverage feedback is the branch coverage of exactly the anchored code.

`campaign()` is what the property modules call from `extra()` in the thorough tier: it starts one process per shard
(own -seed, own fresh corpus directory under .scratch, half of the shards start from a small deterministic corpus of graded
random byte strings that decode to valid cases of growing size, the other half from an empty corpus), waits, merges the
statistics that the targets dump, and returns failures in the runner's format.  If atheris cannot be imported the
campaign reports itself as unavailable (evidence says so) - it never turns into a violation or a harness error.
"""
import glob
import importlib
import inspect
import json
import os
import re
import shutil
import subprocess
import sys
import time
import types

from .core import HOME, REPO, Discard, Violation, canon, case_hash, derive_seed, slug

# modules whose code gives the coverage signal, per property
TARGETS = {
    "C02": ["kafe2.core.error", "kafe2.fit._base.container", "kafe2.fit.indexed.container", "kafe2.fit.xy.container",
            "kafe2.fit.histogram.container", "kafe2.fit._base.model", "kafe2.fit.indexed.model", "kafe2.fit.xy.model",
            "kafe2.fit.histogram.model"],
    "C04": ["kafe2.core.fitters.nexus"],
    "C12": ["kafe2.fit.histogram.container"],
    "C13": ["kafe2.fit.histogram.model", "kafe2.fit.histogram.fit", "kafe2.fit.histogram.container"],
    "C16": ["kafe2.core.confidence"],
    "C17": ["kafe2.fit._base.format", "kafe2.fit.util.function_library"],
    "C19": ["kafe2.core.fitters.nexus", "kafe2.core.error", "kafe2.fit._base.container", "kafe2.fit.indexed.container",
            "kafe2.fit.xy.container", "kafe2.fit.histogram.container", "kafe2.core.constraint"],
}


def _instrument_module(atheris, modname):
    import kafe2  # noqa

    try:
        mod = importlib.import_module(modname)
    except Exception:
        return 0
    n = 0

    def inst(f):
        nonlocal n
        if not isinstance(f, types.FunctionType) or getattr(f, "__module__", None) != modname:
            return f
        try:
            g = atheris.instrument_func(f)
            n += 1
            return g
        except Exception:
            return f

    for name, obj in list(vars(mod).items()):
        if isinstance(obj, types.FunctionType):
            new = inst(obj)
            if new is not obj:
                setattr(mod, name, new)
        elif inspect.isclass(obj) and obj.__module__ == modname:
            for an, av in list(vars(obj).items()):
                try:
                    if isinstance(av, types.FunctionType):
                        setattr(obj, an, inst(av))
                    elif isinstance(av, property):
                        setattr(obj, an, property(inst(av.fget) if av.fget else None, inst(av.fset) if av.fset else None,
                                                  av.fdel, av.__doc__))
                    elif isinstance(av, staticmethod):
                        setattr(obj, an, staticmethod(inst(av.__func__)))
                    elif isinstance(av, classmethod):
                        setattr(obj, an, classmethod(inst(av.__func__)))
                except (AttributeError, TypeError):
                    pass
    return n


def _patch_bytestring_provider():
    """Hypothesis 6.168: BytestringProvider.draw_integer draws `bits` bits and rejects until min <= value <= max *without adding
    min_value*, so draw_integer(2, 3) can never succeed (it consumes the whole buffer and the input counts as invalid).  The shuffle
    inside fixed_dictionaries() with >= 4 keys draws exactly that, which made every input of every sub-check undecodable.  The
    replacement offsets by min_value; everything else is unchanged.  (Tool workaround on the harness side, nothing of kafe2.)"""
    from hypothesis.internal.conjecture import providers

    def draw_integer(self, min_value=None, max_value=None, *, weights=None, shrink_towards=0):
        if min_value is None and max_value is None:
            min_value, max_value = -(2 ** 127), 2 ** 127 - 1
        elif min_value is None:
            min_value = max_value - 2 ** 64
        elif max_value is None:
            max_value = min_value + 2 ** 64
        if min_value == max_value:
            return min_value
        span = max_value - min_value
        bits = span.bit_length()
        value = self._draw_bits(bits)
        while value > span:
            value = self._draw_bits(bits)
        return min_value + value

    providers.BytestringProvider.draw_integer = draw_integer


def _one_process(argv):
    prop_id, sub_name, runs, seed, shard, outdir = argv[0].upper(), argv[1], int(argv[2]), int(argv[3]), int(argv[4]), argv[5]
    corpus_mode = argv[6] if len(argv) > 6 else "empty"
    import warnings

    warnings.simplefilter("ignore")
    import numpy as np

    np.seterr(all="ignore")
    import atheris
    from hypothesis import HealthCheck, given, settings

    from . import runner

    runner._check_repo()
    _patch_bytestring_provider()
    n_inst = sum(_instrument_module(atheris, m) for m in TARGETS.get(prop_id, []))
    mod = runner.load_prop(prop_id)
    sub = {s.name: s for s in mod.SUBS}[sub_name]
    os.makedirs(outdir, exist_ok=True)
    scratch = os.path.join(outdir, "cwd")
    os.makedirs(scratch, exist_ok=True)
    os.chdir(scratch)
    stats = {"executions": 0, "evaluations": 0, "nontrivial_keys": set(), "discarded": 0, "excluded_known": {}, "invalid_bytes": 0,
             "instrumented_functions": n_inst, "labels": {}, "failure": None, "samples": []}
    stats_path = os.path.join(outdir, "stats.json")

    def dump():
        d = dict(stats)
        d["nontrivial_keys"] = sorted(stats["nontrivial_keys"])
        with open(stats_path + ".tmp", "w") as fh:
            json.dump(d, fh, default=str)
        os.replace(stats_path + ".tmp", stats_path)

    real_stdout = sys.stdout
    devnull = open(os.devnull, "w")

    @settings(database=None, deadline=None, suppress_health_check=list(HealthCheck), print_blob=False)
    @given(sub.strategy("thorough"))
    def test(case):
        stats["evaluations"] += 1
        sys.stdout = devnull
        try:
            with warnings.catch_warnings():
                warnings.simplefilter("ignore")
                info = sub.run(case) or {}
        except Discard:
            stats["discarded"] += 1
            return
        except Violation as v:
            kf = runner.match_finding(mod, prop_id, sub_name, case, v)
            if kf:
                stats["excluded_known"][kf] = stats["excluded_known"].get(kf, 0) + 1
                return
            stats["failure"] = {"sub": sub_name, "case": json.loads(canon(case)), "facet": "fuzz:" + v.facet, "detail": v.detail,
                                "observed": v.observed, "expected": v.expected}
            dump()
            raise
        finally:
            sys.stdout = real_stdout
        for lab in info.get("labels", ()):
            stats["labels"][lab] = stats["labels"].get(lab, 0) + 1
        if info.get("nontrivial"):
            stats["nontrivial_keys"].add(info.get("key") or case_hash(case))
            if len(stats["samples"]) < 2 and len(canon(case)) < 3000:
                stats["samples"].append(json.loads(canon(case)))

    fuzz_one = test.hypothesis.fuzz_one_input

    def target(data):
        stats["executions"] += 1
        before = stats["evaluations"]
        fuzz_one(data)
        if stats["evaluations"] == before:
            stats["invalid_bytes"] += 1
        if stats["executions"] % 250 == 0 or stats["executions"] >= runs - 2:
            dump()

    corpus = os.path.join(outdir, "corpus")
    os.makedirs(corpus, exist_ok=True)
    if corpus_mode == "corpus":
        # deterministic pseudo-random byte strings of graded lengths: they decode (through Hypothesis' choice sequence) to valid cases of
        # growing size, so libFuzzer starts with coverage of the main paths instead of discovering the decoder first
        import hashlib

        for i in range(24):
            blob = b"".join(hashlib.sha256(f"{seed}:{shard}:{i}:{j}".encode()).digest() for j in range(1 + i))
            with open(os.path.join(corpus, f"seed{i:02d}"), "wb") as fh:
                fh.write(blob)
    dump()
    args = [sys.argv[0], f"-runs={runs}", f"-seed={seed * 1000 + shard + 1}", "-max_len=8192", "-len_control=20", "-print_final_stats=1",
            f"-artifact_prefix={outdir}/", "-timeout=600", "-rss_limit_mb=4096", corpus]
    atheris.Setup(args, target)
    atheris.Fuzz()


_STAT_RE = re.compile(r"#(\d+)\s+(?:DONE|NEW|REDUCE|pulse|INITED)\s+cov: (\d+) ft: (\d+) corp: (\d+)")


def campaign(prop_id, sub_name, seed, runs_per_shard, shards=16, budget_s=1500):
    """Run the campaign; returns a dict for the runner's `extra` contract (keys prefixed fuzz_; 'failures' in runner format)."""
    out = {"fuzz_engine": "atheris/libFuzzer on Hypothesis fuzz_one_input", "fuzz_subcheck": sub_name}
    probe = subprocess.run([sys.executable, "-c", "import atheris"], capture_output=True)
    if probe.returncode != 0:
        out["fuzz_available"] = False
        out["fuzz_note"] = "atheris not importable in this interpreter; campaign skipped (run ./check --setup)"
        return out
    out["fuzz_available"] = True
    base = os.path.join(HOME, ".scratch", f"fuzz-{prop_id}-{sub_name}-{os.getpid()}")
    shutil.rmtree(base, ignore_errors=True)
    os.makedirs(base)
    procs = []
    t0 = time.time()
    for sh in range(shards):
        od = os.path.join(base, f"s{sh}")
        os.makedirs(od)
        mode = "corpus" if sh % 2 else "empty"
        err = open(os.path.join(od, "stderr.txt"), "w")
        p = subprocess.Popen([sys.executable, "-m", "kverif.fuzz", prop_id, sub_name, str(runs_per_shard), str(seed), str(sh), od, mode],
                             stdout=subprocess.DEVNULL, stderr=err, cwd=HOME)
        procs.append((sh, od, p, err))
    timed_out = 0
    for sh, od, p, err in procs:
        left = max(1.0, budget_s - (time.time() - t0))
        try:
            p.wait(timeout=left)
        except subprocess.TimeoutExpired:
            p.kill()
            p.wait()
            timed_out += 1
        err.close()
    tot = {"executions": 0, "evaluations": 0, "discarded": 0, "invalid_bytes": 0}
    keys = set()
    excluded = {}
    failures = []
    cov = []
    samples = []
    broken = []
    inst = 0
    for sh, od, p, err in procs:
        try:
            with open(os.path.join(od, "stats.json")) as fh:
                st = json.load(fh)
        except Exception:
            broken.append(sh)
            continue
        for k in tot:
            tot[k] += st.get(k, 0)
        inst = max(inst, st.get("instrumented_functions", 0))
        keys.update(st.get("nontrivial_keys", []))
        for k, v in st.get("excluded_known", {}).items():
            excluded[k] = excluded.get(k, 0) + v
        if st.get("failure"):
            failures.append(st["failure"])
        if len(samples) < 2:
            samples.extend({"subcheck": "fuzz:" + sub_name, "case": s} for s in st.get("samples", [])[:1])
        try:
            with open(os.path.join(od, "stderr.txt")) as fh:
                txt = fh.read()
            m = _STAT_RE.findall(txt)
            if m:
                cov.append({"shard": sh, "start": "corpus" if sh % 2 else "empty", "cov": int(m[-1][1]), "features": int(m[-1][2]), "corpus_units": int(m[-1][3])})
            if p.returncode not in (0, None) and not st.get("failure") and p.returncode != -9:
                broken.append(sh)
                with open(os.path.join(HOME, "failures", f"fuzz-{prop_id}-stderr-{sh}.txt"), "w") as fh2:
                    fh2.write(txt[-6000:])
        except Exception:
            pass
    shutil.rmtree(base, ignore_errors=True)
    out.update({
        "evaluations": tot["evaluations"], "distinct_nontrivial": len(keys), "samples": samples,
        "fuzz_executions": tot["executions"], "fuzz_cases_decoded": tot["evaluations"], "fuzz_bytes_rejected_by_decoder": tot["invalid_bytes"],
        "fuzz_discarded_by_rule": tot["discarded"], "fuzz_excluded_known": excluded, "fuzz_shards": shards, "fuzz_runs_per_shard": runs_per_shard,
        "fuzz_instrumented_functions": inst, "fuzz_coverage": cov, "fuzz_shards_timed_out_inconclusive": timed_out,
        "fuzz_shards_without_result": broken, "fuzz_wall_s": round(time.time() - t0, 1),
        "failures": failures[:1] if failures else [],
    })
    if broken:
        raise RuntimeError(f"fuzz campaign {prop_id}/{sub_name}: shards {broken} ended without a result (see failures/fuzz-{prop_id}-stderr-*.txt)")
    return out


if __name__ == "__main__":
    _one_process(sys.argv[1:])


def thorough_extra(prop_id, plan, tier, seed, base=None):
    """Helper for the property modules' `extra(tier, seed)`: runs the campaigns of `plan` = [(sub_name, runs_per_shard, shards), ...] in the
    thorough tier (or when KVERIF_FUZZ=1 forces it, e.g. for sensitivity tests in the quick tier; KVERIF_FUZZ=0 switches it off) and merges the
    result into `base` (the module's own extra output, e.g. an exhaustive enumeration)."""
    out = dict(base or {})
    out.setdefault("failures", [])
    flag = os.environ.get("KVERIF_FUZZ", "")
    if flag == "0" or (tier != "thorough" and flag != "1"):
        return out
    scale = float(os.environ.get("KVERIF_FUZZ_SCALE", "1"))
    campaigns = []
    for sub_name, runs, shards in plan:
        r = campaign(prop_id, sub_name, seed, max(200, int(runs * scale)), shards=shards, budget_s=float(os.environ.get("KVERIF_BUDGET_S", "1500")))
        fails = r.pop("failures", [])
        out["failures"].extend(fails)
        out["evaluations"] = out.get("evaluations", 0) + r.pop("evaluations", 0)
        out["distinct_nontrivial"] = out.get("distinct_nontrivial", 0) + r.pop("distinct_nontrivial", 0)
        out["samples"] = list(out.get("samples", [])) + r.pop("samples", [])
        campaigns.append(r)
    out["fuzz_campaigns"] = campaigns
    out["fuzz_executions"] = sum(c.get("fuzz_executions", 0) for c in campaigns)
    out["fuzz_cases_decoded"] = sum(c.get("fuzz_cases_decoded", 0) for c in campaigns)
    return out
