"""Hypothesis strategies producing problem specs (see fitspec.py).  Validity holds by construction: covariance matrices are
D R D with R a normalised L L^T, data = model(truth) + noise * sigma, magnitudes bounded away from degenerate values."""
import numpy as np
from hypothesis import strategies as st

from . import models

N_MAX = 8

TRUTH = {
    "const": [(-5, 5)],
    "line": [(-3, 3), (-3, 3)],
    "quad": [(-1, 1), (-3, 3), (-3, 3)],
    "cubic": [(-0.3, 0.3), (-1, 1), (-3, 3), (-3, 3)],
    "sincos": [(-3, 3), (-3, 3), (-3, 3)],
    "expbase": [(-2, 2), (-3, 3)],
    "expo": [(2, 10), (1.0, 3.0)],
    "power": [(1, 5), (0.5, 2.5)],
    "gauss": [(3, 10), (3, 5), (0.7, 1.5)],
    "lorentz": [(3, 10), (3, 5), (0.7, 1.5)],
    "sine": [(2, 5), (0.8, 1.4), (0.1, 1.0)],
    "logistic": [(3, 10), (0.8, 2.0), (3, 5)],
}
LINEAR_FAMILIES = ["const", "line", "quad", "cubic", "sincos", "expbase"]
NONLINEAR_FAMILIES = ["expo", "power", "gauss", "lorentz", "sine", "logistic"]


def _nonzero(lo, hi):
    return st.floats(lo, hi).filter(lambda v: abs(v) > 0.05 * max(abs(lo), abs(hi)))


def truth_for(fam):
    return st.tuples(*[_nonzero(lo, hi) for lo, hi in TRUTH[fam]]).map(list)


def corr_matrix(n):
    """R = normalised L L^T with unit diagonal (positive definite by construction), as nested lists"""
    def build(vals, strength):
        L = np.tril(np.array(vals, float).reshape(n, n)) * strength
        L[np.diag_indices(n)] = 1.0
        R = L @ L.T
        d = np.sqrt(np.diag(R))
        R = R / np.outer(d, d)
        R = 0.5 * (R + R.T)
        R[np.diag_indices(n)] = 1.0
        return R.tolist()
    return st.builds(build, st.lists(st.floats(-1, 1), min_size=n * n, max_size=n * n), st.sampled_from([0.0, 0.3, 1.0]))


def source(n, name, ref, axis, scale, allow_relative=True, allow_matrix=True, force=None):
    """one uncertainty source; `scale` = typical magnitude of an absolute uncertainty"""
    rel = st.booleans() if allow_relative else st.just(False)
    err = st.lists(st.floats(0.3, 3.0), min_size=N_MAX, max_size=N_MAX)
    simple = st.builds(
        lambda e, sc, rho, r, en, relsz: {"name": name, "ref": ref, "axis": axis, "kind": "simple", "scalar": sc,
                                          "err": [(relsz if r else scale) * v for v in e], "rho": rho, "relative": r, "enabled": en},
        err, st.booleans(), st.sampled_from([0.0, 0.0, 0.0, 0.3, 0.7, 1.0]), rel, st.sampled_from([True] * 5 + [False]), st.floats(0.01, 0.2))
    if not allow_matrix:
        return simple
    matrix = st.builds(
        lambda e, R, form, r, en, relsz: {"name": name, "ref": ref, "axis": axis, "kind": "matrix", "form": form, "R": R,
                                          "e": [(relsz if r else scale) * v for v in e[:n]], "relative": r, "enabled": en},
        err, corr_matrix(n), st.sampled_from(["cov", "cor"]), rel if ref == "data" else st.just(False), st.sampled_from([True] * 5 + [False]),
        st.floats(0.01, 0.2))
    return st.one_of(simple, simple, matrix)


def constraints_for(names, truth_by_name, max_n=2):
    def simple(nm):
        return st.builds(lambda shift, u, rel: {"kind": "simple", "par": nm, "value": truth_by_name[nm] * (1 + 0.2 * shift) + 0.05 * shift,
                                                "unc": u if not rel else u, "relative": rel},
                         st.floats(-1, 1), st.floats(0.05, 0.5), st.booleans()).map(_fix_simple)
    opts = [simple(nm) for nm in names]
    if len(names) >= 2:
        def matrix(pair):
            k = len(pair)
            return st.builds(lambda R, e, form, rel, shift: {"kind": "matrix", "pars": list(pair), "values": [truth_by_name[nm] * (1 + 0.1 * shift) + 0.02 for nm in pair],
                                                             "form": form, "R": R, "e": e, "relative": rel},
                             corr_matrix(k), st.lists(st.floats(0.05, 0.5), min_size=k, max_size=k), st.sampled_from(["cov", "cor"]), st.booleans(), st.floats(-1, 1))
        pairs = [(a, b) for i, a in enumerate(names) for b in names[i + 1:]] + [(b, a) for i, a in enumerate(names) for b in names[i + 1:]]
        if len(names) >= 3:
            pairs.append(tuple(names[:3]))
        opts.append(st.sampled_from(pairs).flatmap(matrix))
    return st.lists(st.one_of(*opts), max_size=max_n)


def _fix_simple(c):
    # a relative uncertainty is relative to the constraint value: keep |value| away from 0 so that the width stays sane
    if c["relative"] and abs(c["value"]) < 0.05:
        c["value"] = 0.05 if c["value"] >= 0 else -0.05
    return c


@st.composite
def xy_spec(draw, families=None, costs=("chi2",), n_sources=(0, 4), x_errors=True, model_sources=True, constraints=True, fixed=True,
            limits=False, minimizers=("iminuit",), deas=("nonlinear",), model_only_first=0.15, poisson_data=False, min_points=None,
            relative_model=True, permute_params=False, noise_scale=1.0, y_scales=(None,), sigma_rel=(0.01, 0.15)):
    fam = draw(st.sampled_from(list(families or LINEAR_FAMILIES + NONLINEAR_FAMILIES)))
    F = models.family(fam)
    npar = len(F.params)
    n = draw(st.integers(max(min_points or 0, npar + 1, 2), N_MAX))
    truth = draw(truth_for(fam))
    # x positions: spread over a family-specific range, strictly increasing
    x_hi = {"expo": 3.0 * truth[1] if fam == "expo" else 8.0}.get(fam, 8.0)
    gaps = draw(st.lists(st.floats(0.4, 1.6), min_size=n, max_size=n))
    x = np.cumsum(gaps)
    x = 0.2 + (x - x[0]) / max(x[-1] - x[0], 1e-9) * (x_hi - 0.2) if n > 1 else np.array([1.0])
    y0 = F.f(x, truth)
    scale = float(np.max(np.abs(y0))) or 1.0
    sigma_rel_v = draw(st.floats(*sigma_rel))
    base_sigma = sigma_rel_v * scale
    noise = draw(st.lists(st.floats(-1.5, 1.5), min_size=n, max_size=n))
    cost = draw(st.sampled_from(list(costs)))
    order = list(F.params)
    if permute_params:
        order = draw(st.permutations(order))
    sources = []
    n_src = draw(st.integers(*n_sources))
    model_first = model_sources and draw(st.floats(0, 1)) < model_only_first
    for i in range(n_src):
        if i == 0 and model_first:
            ref, axis = "model", "y"
        else:
            ref = draw(st.sampled_from(["data", "data", "data", "model"] if model_sources else ["data"]))
            axis = draw(st.sampled_from(["y", "y", "x"] if x_errors else ["y"]))
        sc = base_sigma if axis == "y" else 0.05 * (x_hi / n)
        allow_rel = relative_model or ref == "data"
        s = draw(source(n, f"s{i}", ref, axis, sc, allow_relative=allow_rel))
        sources.append(s)
    if poisson_data:
        y = np.maximum(np.round(np.abs(y0) * 10.0 / scale * 3 + np.array(noise) * 2.0), 0.0)
    else:
        y = y0 + np.array(noise) * base_sigma * noise_scale
    y_scale = draw(st.sampled_from(list(y_scales)))
    if y_scale is not None and not poisson_data:
        # a different unit of y: data, absolute y uncertainties and the model output carry the factor, the parameters do not
        y = y * y_scale
        for s in sources:
            if s["axis"] == "y" and not s["relative"]:
                key = "err" if s["kind"] == "simple" else "e"
                s[key] = [v * y_scale for v in s[key]]
    else:
        y_scale = None
    tb = dict(zip(F.params, truth))
    cons = draw(constraints_for(order, tb)) if constraints else []
    fx = {}
    if fixed and npar >= 2 and draw(st.booleans()):
        k = draw(st.integers(1, npar - 1))
        for nm in draw(st.permutations(order))[:k]:
            fx[nm] = tb[nm] * draw(st.sampled_from([1.0, 1.0, 1.05, 0.9]))
            # exactly 0.0 is a value like any other ("fix the offset to zero"); only for families that are linear in their parameters, where the rest stays a
            # well-posed linear problem (a peak whose position is fixed 4 widths away from the data is not: observed width -> 3e-5, fit results arbitrary)
            if F.linear and draw(st.integers(0, 5)) == 0:
                fx[nm] = 0.0
    start = {nm: tb[nm] * (1 + 0.1 * draw(st.floats(-1, 1))) for nm in order}
    lim = {}
    if limits and draw(st.booleans()):
        nm = draw(st.sampled_from([p for p in order if p not in fx] or order))
        if nm not in fx:
            w = abs(tb[nm]) * draw(st.floats(0.3, 2.0)) + 0.1
            lim[nm] = [tb[nm] - w, tb[nm] + w]
            if draw(st.integers(0, 3)) == 0 and tb[nm] != 0:
                # a bound that is exactly 0.0 ("the amplitude is non-negative"); the truth stays inside
                lim[nm] = [0.0, tb[nm] + w] if tb[nm] > 0 else [tb[nm] - w, 0.0]
    return {"type": "xy", "family": fam, "order": list(order), "x": [float(v) for v in x], "y": [float(v) for v in y], "truth": tb, "cost": cost,
            "sources": sources, "constraints": cons, "start": start, "fixed": fx, "limits": lim,
            "minimizer": draw(st.sampled_from(list(minimizers))), "dea": draw(st.sampled_from(list(deas))), "sigma": base_sigma * (y_scale or 1.0),
            "y_scale": y_scale, "build_order": draw(st.sampled_from(["sources_first", "sources_first", "sources_first", "params_first"])),
            # default values in the signature of the model function: floats, or (one case in four) plain integers as in 'def f(x, a=1, b=2)'
            "defaults": ({nm: int(1 + (i % 2)) for i, nm in enumerate(order)} if draw(st.integers(0, 3)) == 0 else None)}


@st.composite
def xy_long_spec(draw, costs=("chi2",), minimizers=("iminuit",), n_points=(20, 200), y_scales=(None, None, 1e-3, 1e-5, 1e-7, 1e3, 1e5)):
    """xy problems with MANY points (the other generators stop at 8): straight line / parabola, one or two simple y sources (scalar or smoothly varying vector,
    optionally correlated), data = model + deterministic pseudo-noise, any unit of y.  Sizes are a dimension of their own: sums over points, products over
    variances and vectorised fast paths only show their limits there."""
    fam = draw(st.sampled_from(["line", "quad"]))
    F = models.family(fam)
    n = draw(st.integers(*n_points))
    truth = draw(truth_for(fam))
    x = np.linspace(0.3, 9.7, n)
    y0 = F.f(x, truth)
    scale = float(np.max(np.abs(y0))) or 1.0
    base_sigma = draw(st.floats(0.01, 0.1)) * scale
    ph = draw(st.floats(0.0, 6.0))
    idx = np.arange(n)
    noise = np.sin(1.7 * idx + ph) + 0.5 * np.cos(0.31 * idx * idx + 2.0 * ph)
    y = y0 + noise * base_sigma
    sources = []
    for i in range(draw(st.integers(1, 2))):
        scalar = draw(st.booleans())
        amp = draw(st.floats(0.5, 1.5)) * base_sigma
        err = [float(amp)] * n if scalar else [float(amp * (1.0 + 0.5 * np.sin(0.9 * k + i))) for k in range(n)]
        sources.append({"name": f"s{i}", "ref": "data", "axis": "y", "kind": "simple", "scalar": scalar, "err": err, "rho": draw(st.sampled_from([0.0, 0.0, 0.3, 0.7])),
                        "relative": False, "enabled": True})
    y_scale = draw(st.sampled_from(list(y_scales)))
    if y_scale is not None:
        y = y * y_scale
        for s_ in sources:
            s_["err"] = [v * y_scale for v in s_["err"]]
    tb = dict(zip(F.params, truth))
    return {"type": "xy", "family": fam, "order": list(F.params), "x": [float(v) for v in x], "y": [float(v) for v in y], "truth": tb, "cost": draw(st.sampled_from(list(costs))),
            "sources": sources, "constraints": [], "start": {nm: tb[nm] * 1.05 for nm in F.params}, "fixed": {}, "limits": {},
            "minimizer": draw(st.sampled_from(list(minimizers))), "dea": "nonlinear", "sigma": base_sigma * (y_scale or 1.0), "y_scale": y_scale}


@st.composite
def indexed_spec(draw, costs=("chi2",), n_sources=(0, 4), model_sources=True, constraints=True, fixed=True, nonlinear=False,
                 minimizers=("iminuit",), poisson_data=False, relative_model=True):
    n_par = draw(st.integers(1, 3))
    n = draw(st.integers(n_par + 1, N_MAX))
    nl = nonlinear and draw(st.booleans())
    _, names, ref, _, _ = models.indexed_function(n, n_par, nl)
    truth = [draw(_nonzero(-3, 3)) for _ in names]
    d0 = ref(truth)
    scale = float(np.max(np.abs(d0))) or 1.0
    base_sigma = draw(st.floats(0.01, 0.15)) * scale
    noise = draw(st.lists(st.floats(-1.5, 1.5), min_size=n, max_size=n))
    sources = []
    for i in range(draw(st.integers(*n_sources))):
        refk = draw(st.sampled_from(["data", "data", "data", "model"] if model_sources else ["data"]))
        sources.append(draw(source(n, f"s{i}", refk, None, base_sigma, allow_relative=relative_model or refk == "data")))
    if poisson_data:
        d = np.maximum(np.round(np.abs(d0) * 10.0 / scale * 3 + np.array(noise) * 2.0), 0.0)
    else:
        d = d0 + np.array(noise) * base_sigma
    tb = dict(zip(names, truth))
    cons = draw(constraints_for(names, tb)) if constraints else []
    fx = {}
    if fixed and n_par >= 2 and draw(st.booleans()):
        for nm in draw(st.permutations(names))[: draw(st.integers(1, n_par - 1))]:
            fx[nm] = tb[nm] if draw(st.integers(0, 5)) else 0.0
    start = {nm: tb[nm] * (1 + 0.1 * draw(st.floats(-1, 1))) for nm in names}
    return {"type": "indexed", "n": n, "n_par": n_par, "nonlinear": nl, "data": [float(v) for v in d], "truth": tb, "cost": draw(st.sampled_from(list(costs))),
            "build_order": draw(st.sampled_from(["sources_first", "sources_first", "sources_first", "params_first"])),
            "sources": sources, "constraints": cons, "start": start, "fixed": fx, "limits": {}, "minimizer": draw(st.sampled_from(list(minimizers))),
            "dea": "nonlinear", "sigma": base_sigma}


@st.composite
def hist_spec(draw, costs=("nll",), densities=("normal",), n_sources=(0, 0), constraints=True, fixed=True, minimizers=("iminuit",),
              bin_evaluations=("antider", "numerical"), n_entries=(30, 120)):
    from scipy.stats import norm

    dens = draw(st.sampled_from(list(densities)))
    params = models.DENSITIES[dens][0]
    nb = draw(st.integers(3, N_MAX))
    ne = draw(st.integers(*n_entries))
    jitter = draw(st.lists(st.floats(-0.5, 0.5), min_size=12, max_size=12))
    q = (np.arange(ne) + 0.5) / ne
    if dens == "normal":
        truth = [draw(st.floats(-1, 1)), draw(st.floats(0.7, 1.8))]
        ent = norm.ppf(q) * truth[1] + truth[0] + 0.1 * np.resize(jitter, ne)
        lo, hi = truth[0] - 2.5 * truth[1], truth[0] + 2.5 * truth[1]
    elif dens == "expon":
        truth = [draw(st.floats(0.7, 3.0))]
        ent = -truth[0] * np.log(1 - q) + 0.05 * np.abs(np.resize(jitter, ne))
        lo, hi = 0.0, 4.0 * truth[0]
    else:  # lin_density on [0, 4] with a*x + b >= 0
        truth = [draw(st.floats(0.02, 0.1)), draw(st.floats(0.05, 0.2))]
        u = q * (0.5 * truth[0] * 16 + truth[1] * 4)
        ent = (-truth[1] + np.sqrt(truth[1] ** 2 + 2 * truth[0] * u)) / truth[0]
        lo, hi = 0.0, 4.0
    widths = draw(st.lists(st.floats(0.6, 1.6), min_size=nb, max_size=nb))
    edges = lo + np.concatenate([[0.0], np.cumsum(widths)]) / np.sum(widths) * (hi - lo)
    tb = dict(zip(params, truth))
    sources = []
    for i in range(draw(st.integers(*n_sources))):
        sources.append(draw(source(nb, f"s{i}", "data", None, 1.0, allow_relative=True)))
    cons = draw(constraints_for(params, tb)) if constraints else []
    fx = {}
    if fixed and len(params) >= 2 and draw(st.booleans()):
        nm = draw(st.sampled_from(params))
        fx[nm] = tb[nm]
    return {"type": "hist", "density_name": dens, "order": list(params), "edges": [float(e) for e in edges], "entries": [float(e) for e in ent],
            "bin_evaluation": draw(st.sampled_from(list(bin_evaluations))), "density": dens != "lin_density", "truth": tb,
            "cost": draw(st.sampled_from(list(costs))), "sources": sources, "constraints": cons,
            "start": {nm: tb[nm] * (1 + 0.1 * draw(st.floats(-1, 1))) for nm in params}, "fixed": fx, "limits": {},
            "minimizer": draw(st.sampled_from(list(minimizers))), "dea": "nonlinear"}


@st.composite
def unbinned_spec(draw, densities=("normal", "expon"), constraints=True, fixed=True, minimizers=("iminuit",), n_samples=(15, 60)):
    from scipy.stats import norm

    dens = draw(st.sampled_from(list(densities)))
    params = models.DENSITIES[dens][0]
    ne = draw(st.integers(*n_samples))
    jitter = draw(st.lists(st.floats(-0.5, 0.5), min_size=12, max_size=12))
    q = (np.arange(ne) + 0.5) / ne
    if dens == "normal":
        truth = [draw(st.floats(-1, 1)), draw(st.floats(0.7, 1.8))]
        smp = norm.ppf(q) * truth[1] + truth[0] + 0.1 * np.resize(jitter, ne)
    else:
        truth = [draw(st.floats(0.7, 3.0))]
        smp = -truth[0] * np.log(1 - q) + 0.05 * np.abs(np.resize(jitter, ne))
    tb = dict(zip(params, truth))
    cons = draw(constraints_for(params, tb)) if constraints else []
    fx = {}
    if fixed and len(params) >= 2 and draw(st.booleans()):
        nm = draw(st.sampled_from(params))
        fx[nm] = tb[nm]
    return {"type": "unbinned", "density_name": dens, "order": list(params), "samples": [float(v) for v in smp], "truth": tb, "cost": "nll", "sources": [],
            "constraints": cons, "start": {nm: tb[nm] * (1 + 0.1 * draw(st.floats(-1, 1))) for nm in params}, "fixed": fx, "limits": {},
            "minimizer": draw(st.sampled_from(list(minimizers))), "dea": "nonlinear"}
