"""Model-function families with analytic f, df/dx, d3f/dx3, df/dp (via sympy) and real Python functions for kafe2.

Functions are rendered as source text, compiled under a synthetic filename and registered in linecache so that
inspect.getsource works (kafe2's YAML writer needs it).
"""
import linecache

import numpy as np
import sympy as sp

_x = sp.Symbol("x")

# name -> (parameter names, expression text in sympy/numpy-compatible syntax, linear in parameters?, python defaults)
XY_FAMILIES = {
    "const": (["c"], "c + 0*x", True),
    "line": (["a", "b"], "a*x + b", True),
    "quad": (["a", "b", "c"], "a*x**2 + b*x + c", True),
    "cubic": (["a", "b", "c", "d"], "a*x**3 + b*x**2 + c*x + d", True),
    "sincos": (["a", "b", "c"], "a*sin(x) + b*cos(x) + c", True),
    "expbase": (["a", "b"], "a*exp(0.3*x) + b", True),
    "expo": (["A", "tau"], "A*exp(-x/tau)", False),
    "power": (["A", "n"], "A*(x+1.0)**n", False),
    "gauss": (["A", "mu", "s"], "A*exp(-(x-mu)**2/(2*s**2))", False),
    "lorentz": (["A", "mu", "g"], "A*g**2/((x-mu)**2 + g**2)", False),
    "sine": (["A", "w", "phi"], "A*sin(w*x + phi)", False),
    "logistic": (["L", "k", "x0"], "L/(1 + exp(-k*(x-x0)))", False),
}

_NP_NS = {"exp": np.exp, "sin": np.sin, "cos": np.cos, "sqrt": np.sqrt, "log": np.log, "np": np}
_counter = [0]


class Family:
    def __init__(self, name):
        self.name = name
        self.params, self.expr_text, self.linear = XY_FAMILIES[name]
        syms = {p: sp.Symbol(p) for p in self.params}
        self.sym_params = [syms[p] for p in self.params]
        expr = sp.sympify(self.expr_text, locals=dict(syms, x=_x))
        self.expr = expr
        args = [_x] + self.sym_params
        self._f = sp.lambdify(args, expr, "numpy")
        self._d1 = sp.lambdify(args, sp.diff(expr, _x), "numpy")
        self._d3 = sp.lambdify(args, sp.diff(expr, _x, 3), "numpy")
        self._dp = [sp.lambdify(args, sp.diff(expr, s), "numpy") for s in self.sym_params]
        self.poly_degree = sp.Poly(expr, _x).degree() if expr.is_polynomial(_x) else None

    def _b(self, v, x):
        return np.broadcast_to(np.asarray(v, float), np.shape(x)).astype(float)

    def f(self, x, p):
        x = np.asarray(x, float)
        return self._b(self._f(x, *p), x)

    def dfdx(self, x, p):
        x = np.asarray(x, float)
        return self._b(self._d1(x, *p), x)

    def d3fdx3(self, x, p):
        x = np.asarray(x, float)
        return self._b(self._d3(x, *p), x)

    def jac(self, x, p):
        """d f / d p, shape (n_par, n_x)"""
        x = np.asarray(x, float)
        return np.array([self._b(d(x, *p), x) for d in self._dp])

    def design(self, x):
        """for linear families: (W, b) with f = W p + b"""
        assert self.linear
        zero = [0.0] * len(self.params)
        b = self.f(x, zero)
        W = np.array([self.f(x, [1.0 if j == i else 0.0 for j in range(len(self.params))]) - b for i in range(len(self.params))]).T
        return W, b


_FAMS = {}


def family(name):
    if name not in _FAMS:
        _FAMS[name] = Family(name)
    return _FAMS[name]


def render(name, expr_text, arg_names, defaults, first_args=("x",), y_scale=None, func_name=None):
    """source text of a python function def"""
    func_name = func_name or name
    sig = list(first_args) + [f"{a}={defaults[a]!r}" for a in arg_names]
    import re

    expr_text = re.sub(r"(?<![\w.])(exp|sin|cos|sqrt|log)\(", r"np.\1(", expr_text)  # kafe2's YAML reader re-executes sources with only np/scipy in scope
    body = expr_text if y_scale is None else f"{y_scale!r} * ({expr_text})"
    return f"def {func_name}({', '.join(sig)}):\n    return {body}\n"


def compile_function(source, func_name):
    _counter[0] += 1
    filename = f"<kverif-model-{_counter[0]}>"
    code = compile(source, filename, "exec")
    ns = dict(_NP_NS)
    exec(code, ns)
    lines = source.splitlines(True)
    linecache.cache[filename] = (len(source), None, lines, filename)
    return ns[func_name]


def xy_function(name, order=None, defaults=None, y_scale=None):
    """a real python function for family `name` with parameters in `order` (list of names)"""
    fam = family(name)
    order = list(order) if order is not None else list(fam.params)
    defaults = dict({p: 1.0 for p in fam.params}, **(defaults or {}))
    src = render(name, fam.expr_text, order, defaults, y_scale=y_scale)
    return compile_function(src, name), src


# ---- indexed linear maps ---------------------------------------------------------------------------
_IDX_W = np.array([[1.0, 0.5, -0.25], [-1.0, 2.0, 0.5], [0.5, -1.5, 1.0], [2.0, 1.0, -1.0], [-0.5, -0.5, 2.0], [1.5, 0.25, 0.75],
                   [0.25, 1.25, -0.5], [-1.25, 0.75, 1.5]])
_IDX_B = np.array([0.25, -0.5, 1.0, 0.0, 0.75, -1.0, 0.5, 0.1])


def indexed_function(n, n_par, nonlinear=False):
    names = ["p", "q", "r"][:n_par]
    W = _IDX_W[:n, :n_par]
    b = _IDX_B[:n]
    rows = []
    for i in range(n):
        terms = " + ".join(f"{W[i, j]!r}*{names[j]}" for j in range(n_par))
        if nonlinear:
            terms = f"({terms}) + 0.1*{names[0]}**2"
        rows.append(f"{terms} + {b[i]!r}")
    src = f"def idx_model({', '.join(f'{nm}=1.0' for nm in names)}):\n    return np.array([{', '.join(rows)}])\n"
    f = compile_function(src, "idx_model")

    def ref(p):
        p = np.asarray(p, float)
        out = W @ p + b
        if nonlinear:
            out = out + 0.1 * p[0] ** 2
        return out
    return f, names, ref, (W, b), src


# ---- densities -------------------------------------------------------------------------------------
from scipy.special import erf  # noqa: E402

_NP_NS["erf"] = erf

DENSITIES = {
    # name -> (params, density text, antiderivative text)
    "normal": (["mu", "sigma"], "exp(-0.5*((x-mu)/sigma)**2)/sqrt(2.0*np.pi*sigma**2)", "0.5*(1.0+erf((x-mu)/sqrt(2.0*sigma**2)))"),
    "expon": (["tau"], "exp(-x/tau)/tau", "-exp(-x/tau)"),
    "lin_density": (["a", "b"], "a*x + b + 0.0*x", "0.5*a*x**2 + b*x"),
}


def density_functions(name, order=None, defaults=None):
    params, dtext, Ftext = DENSITIES[name]
    order = list(order) if order is not None else list(params)
    defaults = dict({p: 1.0 for p in params}, **(defaults or {}))
    dsrc = render(name, dtext, order, defaults)
    Fsrc = render(name + "_F", Ftext, order, defaults, func_name=name + "_F")
    f = compile_function(dsrc, name)
    F = compile_function(Fsrc, name + "_F")

    def ref_f(x, p):  # p in canonical order
        kw = dict(zip(params, p))
        return f(np.asarray(x, float), **kw)

    def ref_F(x, p):
        kw = dict(zip(params, p))
        return F(np.asarray(x, float), **kw)
    return f, F, params, ref_f, ref_F, dsrc
