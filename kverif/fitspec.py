"""Problem specs (JSON-able dicts) -> real kafe2 fits through the public API (`build`) and -> reference numerics written
from the documentation in pure numpy/scipy (`Ref`).  Nothing in `Ref` calls kafe2.

Spec keys (see strategies.py for the generator):
  type: xy | indexed | hist | unbinned
  xy:       family, order (parameter order of the python signature), x, y
  indexed:  n, n_par, nonlinear, data
  hist:     density_name, order, edges, entries, bin_evaluation (antider|numerical|simpson|...), density (bool)
  unbinned: density_name, order, samples
  cost: built-in identifier
  sources: [ {name, ref: data|model, axis: x|y|None, kind: simple|matrix, err (list) , scalar (bool), rho, form: cov|cor, R, e,
              relative, enabled} ]      (ordered = order of the add_* calls)
  constraints: [ {kind: simple, par, value, unc, relative} | {kind: matrix, pars, values, form: cov|cor, cov (absolute), relative} ]
  start {par: v}, fixed {par: v}, limits {par: [lo, hi]}, minimizer, dea
"""
import importlib

import numpy as np
from scipy import linalg
from scipy.stats import norm, poisson

from . import models

CHI2_COV = {"chi2", "chi_2", "chisquared", "chi_squared", "chi2_covariance", "chi2_fast", "chi_2_fast", "chisquared_fast", "chi_squared_fast",
            "chi2_covariance_fast"}
CHI2_POINTWISE = {"chi2_pointwise", "chi2_pointwise_errors"}
CHI2_NOERR = {"chi2_no_errors"}
NLL_POISSON = {"nll", "poisson", "nll-poisson", "nll_poisson", "nllpoisson", "negloglikelihood", "neg_log_likelihood"}
NLL_GAUSS = {"nll-gaussian", "nll_gaussian", "nllgaussiann"}
NLLR_POISSON = {"nllr", "nllr-poisson", "nllr_poisson", "nllrpoisson", "negloglikelihoodratio", "neg_log_likelihood_ratio"}
NLLR_GAUSS = {"nllr-gaussian", "nllr_gaussian", "nllrgaussian"}
GA_COV = {"gauss-approximation", "gauss_approximation", "gauss_approximation_covariance", "gauss_approximation_covariance_fast"}
GA_POINT = {"gauss_approximation_pointwise", "gauss_approximation_pointwise_errors"}
UNBINNED = {"nll", "negloglikelihood", "neg_log_likelihood"}


def k(name):
    import kafe2  # noqa

    return importlib.import_module(name)


def par_names(spec):
    t = spec["type"]
    if t == "xy":
        return list(spec.get("order") or models.family(spec["family"]).params)
    if t == "indexed":
        return ["p", "q", "r"][: spec["n_par"]]
    return list(spec.get("order") or models.DENSITIES[spec["density_name"]][0])


def canon_params(spec):
    t = spec["type"]
    if t == "xy":
        return list(models.family(spec["family"]).params)
    if t == "indexed":
        return ["p", "q", "r"][: spec["n_par"]]
    return list(models.DENSITIES[spec["density_name"]][0])


def source_cov(s, values, n):
    """covariance contribution of one source at the given reference values"""
    if s["kind"] == "simple":
        e = np.full(n, float(s["err"][0])) if s.get("scalar") else np.asarray(s["err"][:n], float)
        sig = e * values if s["relative"] else e
        rho = float(s["rho"])
        return np.outer(sig, sig) * ((1.0 - rho) * np.eye(n) + rho * np.ones((n, n)))
    M = matrix_of(s, n)
    return M * np.outer(values, values) if s["relative"] else M


def matrix_of(s, n):
    R = np.asarray(s["R"], float)[:n, :n]
    e = np.asarray(s["e"], float)[:n]
    return np.outer(e, e) * R


# ---------------------------------------------------------------------------------------------------

class Ref:
    def __init__(self, spec):
        self.spec = spec
        self.t = spec["type"]
        self.names = par_names(spec)
        self.canon = canon_params(spec)
        if self.t == "xy":
            self.fam = models.family(spec["family"])
            self.x = np.asarray(spec["x"], float)
            self.d = np.asarray(spec["y"], float)
            self.n = len(self.x)
            self.y_scale = spec.get("y_scale")
        elif self.t == "indexed":
            _, _, self.idx_ref, self.idx_lin, _ = models.indexed_function(spec["n"], spec["n_par"], spec.get("nonlinear", False))
            self.d = np.asarray(spec["data"], float)
            self.n = len(self.d)
        elif self.t == "hist":
            _, _, _, self.dens, self.Fdens, _ = models.density_functions(spec["density_name"])
            self.edges = np.asarray(spec["edges"], float)
            ent = np.asarray(spec["entries"], float)
            self.n_entries = len(ent)
            j = np.searchsorted(self.edges, ent, side="right")
            self.d = np.array([np.sum(j == i + 1) for i in range(len(self.edges) - 1)], float)
            self.n = len(self.d)
        else:
            _, _, _, self.dens, self.Fdens, _ = models.density_functions(spec["density_name"])
            self.samples = np.asarray(spec["samples"], float)
            self.d = self.samples
            self.n = len(self.samples)

    # ---- helpers
    def pvec(self, p):
        """p: dict name->value or sequence in fit order -> canonical-order list"""
        if not isinstance(p, dict):
            p = dict(zip(self.names, p))
        return [float(p[nm]) for nm in self.canon]

    def model(self, p):
        pc = self.pvec(p)
        if self.t == "xy":
            m = self.fam.f(self.x, pc)
            return m * self.y_scale if self.y_scale else m
        if self.t == "indexed":
            return self.idx_ref(pc)
        if self.t == "hist":
            integ = self.Fdens(self.edges[1:], pc) - self.Fdens(self.edges[:-1], pc)
            return integ * self.n_entries if self.spec.get("density", True) else integ
        return self.dens(self.samples, pc)

    def slope(self, p):
        pc = self.pvec(p)
        s = self.fam.dfdx(self.x, pc)
        return s * self.y_scale if self.y_scale else s

    def slope_error_bound(self, p, sx):
        """bound on |central difference - analytic slope| for kafe2's step h = 0.01*sigma_x (default step where sigma_x = 0)"""
        pc = self.pvec(p)
        h = np.where(sx > 0, 0.01 * sx, 1e-2 * (np.abs(self.x) + 1.0 / (1.0 + np.abs(self.x))))
        if self.fam.poly_degree is not None and self.fam.poly_degree <= 2:
            return np.zeros(self.n)
        grid = np.linspace(-1, 1, 5)
        d3 = np.max([np.abs(self.fam.d3fdx3(self.x + g * h, pc)) for g in grid], axis=0)
        b = h ** 2 * d3 / 6.0 * 1.5
        return b * abs(self.y_scale) if self.y_scale else b

    def slope_tolerance(self, p, fn):
        """first-order bound on how much fn() (any functional of the projected covariance) can change when kafe2's
        finite-difference slope deviates from the analytic one by at most slope_error_bound: 2 * sum_i |fn(slope + b_i e_i) - fn(slope)|"""
        if self.t != "xy":
            return 0.0
        Vx = self.axis_cov("x", p)
        if not np.any(Vx != 0):
            return 0.0
        b = self.slope_error_bound(p, np.sqrt(np.diag(Vx)))
        if not np.any(b > 0):
            return 0.0
        base = fn()
        orig = self.slope
        dev = 0.0
        try:
            for i in np.nonzero(b > 0)[0]:
                bi = np.zeros_like(b)
                bi[i] = b[i]
                self.slope = lambda pp, _b=bi: orig(pp) + _b
                try:
                    dev += abs(fn() - base)
                except np.linalg.LinAlgError:
                    return np.inf
        finally:
            self.slope = orig
        return 2.0 * dev

    def axis_cov(self, axis, p, which=("data", "model"), enabled_only=True):
        V = np.zeros((self.n, self.n))
        for s in self.spec.get("sources", []):
            if enabled_only and not s.get("enabled", True):
                continue
            if s["ref"] not in which:
                continue
            ax = s.get("axis") or "y"
            if ax != axis:
                continue
            if s["ref"] == "data":
                vals = self.x if (self.t == "xy" and axis == "x") else self.d
            else:
                vals = self.x if (self.t == "xy" and axis == "x") else self.model(p)
            V += source_cov(s, vals, self.n)
        return V

    def x_errors_too_large(self, p):
        """xy problems: an x uncertainty larger than half the spacing of the points makes the first-order projection kafe2 documents meaningless (the
        cost surface becomes jagged); such problems are not well-posed for the minimiser-level properties"""
        if self.t != "xy" or self.n < 2:
            return False
        sx = np.sqrt(np.clip(np.diag(self.axis_cov("x", p)), 0, None))
        return bool(np.any(sx > 0) and np.max(sx) > 0.5 * np.min(np.diff(np.sort(self.x))))

    def total_cov(self, p):
        Vy = self.axis_cov("y", p)
        if self.t == "xy":
            Vx = self.axis_cov("x", p)
            if np.any(Vx != 0):
                sl = self.slope(p)
                Vy = Vy + Vx * np.outer(sl, sl)
        return Vy

    def has_sources(self, enabled_only=False):
        return any((s.get("enabled", True) or not enabled_only) for s in self.spec.get("sources", []))

    def constraint_cost(self, p):
        if not isinstance(p, dict):
            p = dict(zip(self.names, p))
        c = 0.0
        for con in self.spec.get("constraints", []):
            if con["kind"] == "simple":
                unc = con["unc"] * con["value"] if con["relative"] else con["unc"]
                c += ((p[con["par"]] - con["value"]) / unc) ** 2
            else:
                v = np.asarray(con["values"], float)
                C = constraint_cov(con)
                r = np.array([p[nm] for nm in con["pars"]], float) - v
                c += float(r @ np.linalg.solve(C, r))
        return c

    def cost(self, p, implicit_no_errors=None):
        """the documented cost (-2 ln L) of the spec at p"""
        cid = self.spec["cost"]
        con = self.constraint_cost(p)
        m = self.model(p)
        if self.t == "unbinned":
            with np.errstate(all="ignore"):
                return float(-2.0 * np.sum(np.log(m)) + con)
        r = self.d - m
        if implicit_no_errors is None:
            implicit_no_errors = cid == "chi2" and not self.has_sources()
        if cid in CHI2_NOERR or (cid == "chi2" and implicit_no_errors):
            return float(r @ r + con)
        if cid in NLL_POISSON:
            return float(-2.0 * np.sum(poisson.logpmf(self.d, mu=m)) + con)
        if cid in NLLR_POISSON:
            return float(-2.0 * (np.sum(poisson.logpmf(self.d, mu=m)) - np.sum(poisson.logpmf(self.d, mu=self.d))) + con)
        V = self.total_cov(p)
        sig = np.sqrt(np.diag(V))
        if cid in CHI2_COV:
            cf = linalg.cho_factor(V, lower=True)
            chi2 = float(r @ linalg.cho_solve(cf, r))
            logdet = 2.0 * float(np.sum(np.log(np.diag(cf[0]))))
            return chi2 + logdet + con
        if cid in CHI2_POINTWISE:
            return float(np.sum((r / sig) ** 2) + np.sum(np.log(sig ** 2)) + con)
        if cid in NLL_GAUSS:
            return float(-2.0 * np.sum(norm.logpdf(self.d, loc=m, scale=sig)) + con)
        if cid in NLLR_GAUSS:
            return float(-2.0 * (np.sum(norm.logpdf(self.d, loc=m, scale=sig)) - np.sum(norm.logpdf(self.d, loc=self.d, scale=sig))) + con)
        if cid in GA_COV:
            Vt = V + np.diag(m)
            cf = linalg.cho_factor(Vt, lower=True)
            return float(r @ linalg.cho_solve(cf, r)) + 2.0 * float(np.sum(np.log(np.diag(cf[0])))) + con
        if cid in GA_POINT:
            var = m + sig ** 2
            return float(np.sum(r ** 2 / var) + np.sum(np.log(var)) + con)
        raise KeyError(cid)

    def logdet(self, p):
        V = self.total_cov(p)
        return float(np.linalg.slogdet(V)[1])

    # ---- degrees of freedom etc.
    def n_constraint_rows(self):
        return sum(1 if c["kind"] == "simple" else len(c["pars"]) for c in self.spec.get("constraints", []))

    def ndf(self, fixed=None):
        fixed = self.spec.get("fixed", {}) if fixed is None else fixed
        return self.n + self.n_constraint_rows() - len(self.names) + len(fixed)

    # ---- linear least squares (C05)
    def gls(self):
        """closed form for models linear in the parameters and parameter-independent covariance.
        returns p_hat (fit order), C (full, zero rows/cols for fixed), chi2 (incl. constraint terms)"""
        spec = self.spec
        if self.t == "xy":
            W, b = self.fam.design(self.x)
            if self.y_scale:
                W, b = W * self.y_scale, b * self.y_scale
            cols = self.canon
        elif self.t == "indexed":
            W, b = self.idx_lin
            cols = self.canon
        else:
            raise NotImplementedError
        # reorder columns into fit order
        W = np.array([W[:, cols.index(nm)] for nm in self.names]).T
        fixed = spec.get("fixed", {})
        start = spec.get("start", {})
        free = [nm for nm in self.names if nm not in fixed]
        p0 = {nm: (fixed[nm] if fixed.get(nm) is not None else start.get(nm, 1.0)) for nm in fixed}
        V = self.total_cov({nm: 1.0 for nm in self.names})
        d = self.d - b - sum(W[:, self.names.index(nm)] * p0[nm] for nm in fixed)
        Wf = np.array([W[:, self.names.index(nm)] for nm in free]).T
        # constraints as extra measurement rows
        rows_W, rows_d, blocks = [Wf], [d], [V]
        for con in spec.get("constraints", []):
            pars = [con["par"]] if con["kind"] == "simple" else con["pars"]
            vals = np.array([con["value"]] if con["kind"] == "simple" else con["values"], float)
            C = np.array([[(con["unc"] * con["value"] if con["relative"] else con["unc"]) ** 2]]) if con["kind"] == "simple" else constraint_cov(con)
            A = np.zeros((len(pars), len(free)))
            dv = vals.copy()
            for i, nm in enumerate(pars):
                if nm in fixed:
                    dv[i] -= p0[nm]
                else:
                    A[i, free.index(nm)] = 1.0
            rows_W.append(A)
            rows_d.append(dv)
            blocks.append(C)
        Wa = np.vstack(rows_W)
        da = np.concatenate(rows_d)
        Va = linalg.block_diag(*blocks)
        Vi = np.linalg.inv(Va)
        H = Wa.T @ Vi @ Wa
        Cf = np.linalg.inv(H)
        pf = Cf @ Wa.T @ Vi @ da
        res = da - Wa @ pf
        chi2 = float(res @ Vi @ res)
        p_hat = np.array([p0[nm] if nm in fixed else pf[free.index(nm)] for nm in self.names])
        C = np.zeros((len(self.names), len(self.names)))
        idx = [self.names.index(nm) for nm in free]
        C[np.ix_(idx, idx)] = Cf
        return p_hat, C, chi2, np.linalg.cond(H)


def constraint_cov(con):
    """absolute covariance of a matrix constraint (spec stores R and e, relative flag applies to values)"""
    R = np.asarray(con["R"], float)
    e = np.asarray(con["e"], float)
    C = np.outer(e, e) * R
    if con["relative"]:
        v = np.asarray(con["values"], float)
        C = C * np.outer(v, v)
    return C


# ---------------------------------------------------------------------------------------------------
# building real objects

def make_model_function(spec):
    t = spec["type"]
    if t == "xy":
        f, src = models.xy_function(spec["family"], order=spec.get("order"), defaults=spec.get("defaults"), y_scale=spec.get("y_scale"))
        return f
    if t == "indexed":
        return models.indexed_function(spec["n"], spec["n_par"], spec.get("nonlinear", False))[0]
    f, F, params, _, _, _ = models.density_functions(spec["density_name"], order=spec.get("order"), defaults=spec.get("defaults"))
    return f


def add_source(fit, spec, s):
    n = len(spec["x"]) if spec["type"] == "xy" else (spec["n"] if spec["type"] == "indexed" else len(spec["edges"]) - 1)
    kw = {"name": s["name"], "relative": bool(s["relative"]), "reference": s["ref"]}
    if spec["type"] == "xy":
        pre = (s.get("axis_spelling") or s["axis"],)
    else:
        pre = ()
    if s["kind"] == "simple":
        err = float(s["err"][0]) if s.get("scalar") else np.asarray(s["err"][:n], float)
        fit.add_error(*pre, err, correlation=s["rho"], **kw)
    else:
        R = np.asarray(s["R"], float)[:n, :n]
        e = np.asarray(s["e"], float)[:n]
        if s["form"] == "cor":
            fit.add_matrix_error(*pre, R.copy(), "cor", err_val=e.copy(), **kw)
        else:
            fit.add_matrix_error(*pre, np.outer(e, e) * R, "cov", **kw)
    if not s.get("enabled", True):
        fit.disable_error(s["name"])


def add_constraint(fit, con):
    if con["kind"] == "simple":
        fit.add_parameter_constraint(con["par"], con["value"], con["unc"], relative=bool(con["relative"]))
    else:
        R = np.asarray(con["R"], float)
        e = np.asarray(con["e"], float)
        if con["form"] == "cor":
            fit.add_matrix_parameter_constraint(con["pars"], list(con["values"]), R.copy(), matrix_type="cor", uncertainties=e.copy(), relative=bool(con["relative"]))
        else:
            fit.add_matrix_parameter_constraint(con["pars"], list(con["values"]), np.outer(e, e) * R, matrix_type="cov", relative=bool(con["relative"]))


def build(spec, apply_sources=True, apply_params=True, model_function=None):
    """construct the kafe2 fit described by spec using only public calls; model_function: an already wrapped model function object to use (shared between fits)"""
    kafe2 = k("kafe2")
    t = spec["type"]
    f = make_model_function(spec) if model_function is None else model_function
    common = dict(minimizer=spec.get("minimizer", "iminuit"), dynamic_error_algorithm=spec.get("dea", "nonlinear"))
    if t == "xy":
        fit = kafe2.XYFit([np.asarray(spec["x"], float), np.asarray(spec["y"], float)], f, cost_function=spec["cost"], **common)
    elif t == "indexed":
        fit = kafe2.IndexedFit(np.asarray(spec["data"], float), f, cost_function=spec["cost"], **common)
    elif t == "hist":
        edges = [float(e) for e in spec["edges"]]
        hc = kafe2.HistContainer(n_bins=len(edges) - 1, bin_range=(edges[0], edges[-1]), bin_edges=edges, fill_data=[float(e) for e in spec["entries"]])
        be = spec.get("bin_evaluation", "antider")
        if be == "antider":
            be = models.density_functions(spec["density_name"], order=spec.get("order"), defaults=spec.get("defaults"))[1]
        fit = kafe2.HistFit(hc, f, cost_function=spec["cost"], bin_evaluation=be, density=spec.get("density", True), **common)
    else:
        fit = kafe2.UnbinnedFit(np.asarray(spec["samples"], float), f, cost_function=spec["cost"], minimizer=common["minimizer"])
    def _sources():
        for s in spec.get("sources", []):
            add_source(fit, spec, s)
        for con in spec.get("constraints", []):
            add_constraint(fit, con)

    def _params():
        if spec.get("start"):
            fit.set_parameter_values(**{nm: float(v) for nm, v in spec["start"].items()})
        for nm, v in spec.get("fixed", {}).items():
            fit.fix_parameter(nm, None if v is None else float(v))
        for nm, (lo, hi) in spec.get("limits", {}).items():
            fit.limit_parameter(nm, lo, hi)

    # the order of declaration is part of the specification: "params_first" sets / fixes / limits the parameters before any uncertainty or constraint exists
    steps = ([(apply_params, _params), (apply_sources, _sources)] if spec.get("build_order") == "params_first" else [(apply_sources, _sources), (apply_params, _params)])
    for on, step in steps:
        if on:
            step()
    return fit
