"""Shared vocabulary of all sub-checks: violations, discards, tolerances, case hashing."""
import contextlib
import hashlib
import json
import math
import os
import traceback

import numpy as np

HOME = os.environ.get("KVERIF_HOME", os.path.dirname(os.path.dirname(os.path.abspath(__file__))))
REPO = os.environ.get("KVERIF_REPO", "/repo")


class Violation(Exception):
    """The property does not hold for this case.  `facet` names what was compared (stable, used for
    bucketing by root cause and for known-finding signatures); `detail` is free text / numbers."""

    def __init__(self, facet, detail="", observed=None, expected=None):
        super().__init__(f"{facet}: {detail}")
        self.facet = str(facet)
        self.detail = str(detail)
        self.observed = observed
        self.expected = expected


class Discard(Exception):
    """The generated case lies outside the property's quantifier (counted, by reason)."""

    def __init__(self, reason):
        super().__init__(reason)
        self.reason = str(reason)


def _innermost_kafe2_frame(tb):
    frames = traceback.extract_tb(tb)
    where = None
    for f in frames:
        if "/kafe2/" in f.filename.replace("\\", "/"):
            where = f"{os.path.basename(f.filename)}:{f.name}"
    return where


@contextlib.contextmanager
def guard(facet, allow=()):
    """Wrap *calls into kafe2* that the property says must succeed: an exception raised there is a
    violation of that facet (bucketed by exception type and innermost kafe2 frame), not a harness
    error.  Violation/Discard pass through unchanged."""
    try:
        yield
    except (Violation, Discard):
        raise
    except allow:
        raise
    except Exception as e:  # noqa
        where = _innermost_kafe2_frame(e.__traceback__)
        if where is None:
            raise  # raised by harness code or by numpy on harness data: harness error
        raise Violation(f"{facet}/raises:{type(e).__name__}@{where}", f"{type(e).__name__}: {e}") from e


# ---------------------------------------------------------------------------------------------------
# tolerances (DESIGN G4)

def round_close(a, b, scale=None, factor=1.0):
    """ROUND class: two computations of the same real quantity in IEEE double."""
    a = np.asarray(a, dtype=float)
    b = np.asarray(b, dtype=float)
    if a.shape != b.shape:
        return False
    if scale is None:
        fin = np.concatenate([np.abs(a[np.isfinite(a)]).ravel(), np.abs(b[np.isfinite(b)]).ravel()])
        scale = float(fin.max()) if fin.size else 0.0
    tol = factor * (1e-9 * (np.abs(a) + np.abs(b)) + 1e-12 * scale)
    both_nan = np.isnan(a) & np.isnan(b)
    same_inf = np.isinf(a) & np.isinf(b) & (np.sign(a) == np.sign(b))
    with np.errstate(invalid="ignore"):
        ok = (np.abs(a - b) <= tol) | both_nan | same_inf
    return bool(np.all(ok))


def expect_round(facet, observed, expected, scale=None, factor=1.0, extra=""):
    if observed is None or expected is None:
        if observed is None and expected is None:
            return
        raise Violation(facet, f"None-ness differs: observed={_short(observed)} expected={_short(expected)} {extra}")
    try:
        o = np.asarray(observed, dtype=float)
    except (TypeError, ValueError):
        raise Violation(facet, f"observed not numeric: {observed!r} {extra}")
    e = np.asarray(expected, dtype=float)
    if o.shape != e.shape:
        raise Violation(facet, f"shape {o.shape} != expected {e.shape} {extra}", observed=_tolist(o), expected=_tolist(e))
    if not round_close(o, e, scale=scale, factor=factor):
        raise Violation(facet, f"observed={_short(o)} expected={_short(e)} maxdiff={_maxdiff(o, e):.3g} {extra}",
                        observed=_tolist(o), expected=_tolist(e))


def expect_exact(facet, observed, expected, extra=""):
    same = False
    try:
        if isinstance(observed, np.ndarray) or isinstance(expected, np.ndarray):
            same = np.array_equal(np.asarray(observed), np.asarray(expected), equal_nan=True)
        else:
            same = observed == expected
    except Exception:
        same = False
    if not same:
        raise Violation(facet, f"observed={_short(observed)} expected={_short(expected)} {extra}",
                        observed=_tolist(observed), expected=_tolist(expected))


def expect_abs(facet, observed, expected, tol, extra=""):
    o = np.asarray(observed, dtype=float)
    e = np.asarray(expected, dtype=float)
    if o.shape != e.shape:
        raise Violation(facet, f"shape {o.shape} != expected {e.shape} {extra}")
    with np.errstate(invalid="ignore"):
        bad = ~(np.abs(o - e) <= tol)
    bad &= ~(np.isnan(o) & np.isnan(e))
    if np.any(bad):
        raise Violation(facet, f"observed={_short(o)} expected={_short(e)} maxdiff={_maxdiff(o, e):.3g} tol={_short(tol)} {extra}",
                        observed=_tolist(o), expected=_tolist(e))


def _maxdiff(o, e):
    with np.errstate(invalid="ignore"):
        d = np.abs(np.asarray(o, float) - np.asarray(e, float))
    d = d[np.isfinite(d)]
    return float(d.max()) if d.size else float("nan")


def _short(x, n=200):
    try:
        if isinstance(x, np.ndarray):
            s = np.array2string(x, precision=12, threshold=20, max_line_width=10 ** 6)
        else:
            s = repr(x)
    except Exception:
        s = "<unrepr>"
    s = " ".join(s.split())
    return s if len(s) <= n else s[: n - 3] + "..."


def _tolist(x):
    try:
        a = np.asarray(x)
        if a.size > 64:
            return None
        return json.loads(json.dumps(a.tolist(), default=str))
    except Exception:
        return None


# ---------------------------------------------------------------------------------------------------
# JSON-able cases

def canon(case):
    return json.dumps(case, sort_keys=True, default=_json_default, allow_nan=True)


def _json_default(o):
    if isinstance(o, np.ndarray):
        return o.tolist()
    if isinstance(o, (np.floating,)):
        return float(o)
    if isinstance(o, (np.integer,)):
        return int(o)
    if isinstance(o, (np.bool_,)):
        return bool(o)
    if isinstance(o, (set, frozenset)):
        return sorted(o)
    if isinstance(o, tuple):
        return list(o)
    return str(o)


def case_hash(obj):
    return hashlib.sha1(canon(obj).encode()).hexdigest()[:16]


def derive_seed(*parts):
    h = hashlib.sha256(":".join(str(p) for p in parts).encode()).hexdigest()
    return int(h[:12], 16)


def slug(s, n=60):
    out = "".join(c if c.isalnum() or c in "-_." else "_" for c in str(s))
    return out[:n]


def finite(x):
    return x is not None and isinstance(x, (int, float)) and math.isfinite(x)


def scribble(obj):
    """The caller's buffer is reused: overwrite, in place, a list / array that has just been handed to kafe2.  An API call declares the *values* it was given;
    what the caller does with its own object afterwards must not reach into kafe2 (aliasing of mutable arguments).  Returns nothing."""
    try:
        if isinstance(obj, np.ndarray):
            if obj.flags.writeable and obj.size:
                if np.issubdtype(obj.dtype, np.floating):
                    obj[...] = obj * -3.0 + 7.25
                else:
                    obj[...] = obj * 3 + 7
        elif isinstance(obj, list):
            n = len(obj)
            obj[:] = [(-3.0 * v + 7.25) if isinstance(v, (int, float)) else v for v in obj]
            obj.extend([123456.0] * 2)
            assert len(obj) == n + 2
    except (TypeError, ValueError):
        pass
