"""Runner: tiers, seeds, sharding over processes, evidence, VIOLATION / KNOWN-FINDING lines, exit codes.

  python -m kverif.runner <Cnn> [quick|thorough]
  python -m kverif.runner <Cnn> --replay <file>

exit 0 = property held on everything explored; exit 1 = at least one VIOLATION line; exit 2 = harness error.
"""
import collections
import concurrent.futures as cf
import importlib
import json
import multiprocessing
import os
import shutil
import sys
import time
import traceback
import warnings

from .core import HOME, REPO, Discard, Violation, canon, case_hash, derive_seed, slug

MAX_WORKERS = int(os.environ.get("KVERIF_WORKERS", "16"))


class Sub:
    """One sub-check: a Hypothesis strategy producing JSON-able cases and a pure function judging one case."""

    def __init__(self, name, strategy, run, quick, thorough, shards=None, about="", max_shrink_s=None):
        self.name = name
        self.strategy = strategy  # callable(tier) -> SearchStrategy
        self.run = run  # callable(case) -> dict(nontrivial=bool, labels=[...], key=optional)
        self.quick = quick
        self.thorough = thorough
        self.shards = shards
        self.about = about
        self.max_shrink_s = max_shrink_s


def load_prop(prop_id):
    return importlib.import_module(f"kverif.props.{prop_id.lower()}")


def _check_repo():
    import kafe2

    f = os.path.realpath(kafe2.__file__)
    if not f.startswith(os.path.realpath(REPO) + os.sep):
        raise RuntimeError(f"kafe2 imported from {f}, expected under {REPO}")


# ---------------------------------------------------------------------------------------------------
# known findings

def load_findings():
    path = os.path.join(HOME, "known_findings.json")
    if not os.path.exists(path):
        return []
    with open(path) as fh:
        return json.load(fh).get("findings", [])


def open_findings(prop_id):
    return [f for f in load_findings() if f.get("status") == "open" and f.get("property") == prop_id]


def match_finding(mod, prop_id, sub_name, case, violation, _cache={}):
    """Return the id of the open known finding whose signature matches this failure, else None."""
    if prop_id not in _cache:
        _cache[prop_id] = open_findings(prop_id)
    preds = getattr(mod, "KNOWN", {})
    for f in _cache[prop_id]:
        pred = preds.get(f["id"])
        if pred is None:
            continue
        try:
            if pred(sub_name, case, violation):
                return f["id"]
        except Exception:
            continue
    return None


# ---------------------------------------------------------------------------------------------------
# one shard of one sub-check (runs in a worker process)

def _new_stats():
    return {
        "evaluations": 0,
        "nontrivial_keys": set(),
        "labels": collections.Counter(),
        "discarded_by_rule": collections.Counter(),
        "excluded_known": collections.Counter(),
        "inconclusive_budget": 0,
        "samples": [],
        "failures": [],  # dicts: case, facet, detail
        "harness_errors": [],
        "wall_s": 0.0,
    }


def run_shard(prop_id, sub_name, tier, seed, shard, n_examples, budget_s, shrink_cap_s):
    t0 = time.time()
    stats = _new_stats()
    try:
        warnings.simplefilter("ignore")
        import numpy as np

        np.seterr(all="ignore")
        import logging

        logging.getLogger("matplotlib").setLevel(logging.ERROR)
        sys.stdout = open(os.devnull, "w")  # kafe2 prints warnings with print(); results travel through the return value
        _check_repo()
        scratch = os.path.join(HOME, ".scratch", f"{prop_id}-{sub_name}-{shard}-{os.getpid()}")
        os.makedirs(scratch, exist_ok=True)
        os.chdir(scratch)
        from hypothesis import HealthCheck, Phase, given, seed as hseed, settings

        mod = load_prop(prop_id)
        sub = {s.name: s for s in mod.SUBS}[sub_name]
        state = {"first_fail_t": None, "best": None, "best_len": None}

        import signal

        class _CaseTimeout(BaseException):
            pass

        def _on_alarm(signum, frame):
            raise _CaseTimeout()

        case_s = float(os.environ.get("KVERIF_CASE_S", "90" if tier == "quick" else "600"))
        signal.signal(signal.SIGALRM, _on_alarm)

        def judge(case):
            """returns None or a failure dict; updates stats"""
            try:
                signal.setitimer(signal.ITIMER_REAL, case_s)
                try:
                    with warnings.catch_warnings():
                        warnings.simplefilter("ignore")
                        info = sub.run(case) or {}
                finally:
                    signal.setitimer(signal.ITIMER_REAL, 0)
            except _CaseTimeout:
                # a single case that does not finish within KVERIF_CASE_S is inconclusive (a time budget is never a violation); the case is kept
                # under failures/<Cnn>/timeout-*.json for analysis
                stats["inconclusive_budget"] += 1
                stats["discarded_by_rule"][f"case did not finish within {case_s:.0f} s (inconclusive)"] += 1
                d = os.path.join(HOME, "failures", prop_id)
                os.makedirs(d, exist_ok=True)
                with open(os.path.join(d, f"timeout-{sub_name}-{case_hash(case)}.json"), "w") as fh:
                    fh.write(canon({"property": prop_id, "subcheck": sub_name, "facet": "timeout", "detail": f"> {case_s} s", "case": case}))
                return None
            except Discard as d:
                stats["discarded_by_rule"][d.reason] += 1
                return None
            except Violation as v:
                kf = match_finding(mod, prop_id, sub_name, case, v)
                if kf:
                    stats["excluded_known"][kf] += 1
                    if os.environ.get("KVERIF_DUMP_KNOWN") and stats["excluded_known"][kf] <= 2:
                        d = os.path.join(HOME, "failures", prop_id)
                        os.makedirs(d, exist_ok=True)
                        with open(os.path.join(d, f"known-{kf}-{case_hash(case)}.json"), "w") as fh:
                            fh.write(canon({"property": prop_id, "subcheck": sub_name, "facet": v.facet, "detail": v.detail, "case": case}))
                    return None
                return {"case": case, "facet": v.facet, "detail": v.detail, "observed": v.observed, "expected": v.expected}
            except Exception as e:  # noqa  (harness error: keep the case for analysis, then let it surface as exit 2)
                if stats.setdefault("_harness_dumped", 0) < 3:
                    stats["_harness_dumped"] += 1
                    d = os.path.join(HOME, "failures", prop_id)
                    os.makedirs(d, exist_ok=True)
                    with open(os.path.join(d, f"harness-{sub_name}-{case_hash(case)}.json"), "w") as fh:
                        fh.write(canon({"property": prop_id, "subcheck": sub_name, "facet": "harness-error", "detail": f"{type(e).__name__}: {e}", "case": case}))
                raise
            stats["evaluations"] += 1
            for lab in info.get("labels", ()):
                stats["labels"][lab] += 1
            if info.get("nontrivial"):
                stats["labels"]["nontrivial"] += 1
                stats["nontrivial_keys"].add(info.get("key") or case_hash(case))
                if len(stats["samples"]) < 3 and len(canon(case)) < 4000:
                    stats["samples"].append(case)
            return None

        @hseed(derive_seed(seed, prop_id, sub_name, shard))
        @settings(
            max_examples=max(1, n_examples),
            database=None,
            deadline=None,
            derandomize=False,
            report_multiple_bugs=False,
            suppress_health_check=[HealthCheck.too_slow, HealthCheck.data_too_large, HealthCheck.filter_too_much,
                                   HealthCheck.large_base_example],
            phases=[Phase.generate, Phase.target, Phase.shrink],
            print_blob=False,
        )
        @given(sub.strategy(tier))
        def test(case):
            now = time.time()
            if state["first_fail_t"] is not None and now - state["first_fail_t"] > shrink_cap_s:
                return  # shrink budget used up: let Hypothesis wind down
            if state["first_fail_t"] is None and now - t0 > budget_s:
                stats["inconclusive_budget"] += 1
                return
            fail = judge(case)
            if fail is not None:
                if state["first_fail_t"] is None:
                    state["first_fail_t"] = now
                n = len(canon(case))
                if state["best"] is None or n <= state["best_len"]:
                    state["best"], state["best_len"] = fail, n
                raise AssertionError(fail["facet"])

        try:
            test()
        except BaseException as e:  # noqa  (Hypothesis re-raises the failure, or Flaky after the shrink cap)
            if state["best"] is None:
                if isinstance(e, (KeyboardInterrupt, SystemExit)):
                    raise
                stats["harness_errors"].append("".join(traceback.format_exception(type(e), e, e.__traceback__))[-4000:])
        if state["best"] is not None:
            stats["failures"].append(state["best"])
        os.chdir(HOME)
        shutil.rmtree(scratch, ignore_errors=True)
    except BaseException as e:  # noqa
        stats["harness_errors"].append("".join(traceback.format_exception(type(e), e, e.__traceback__))[-4000:])
    stats["wall_s"] = time.time() - t0
    stats.pop("_harness_dumped", None)
    stats["nontrivial_keys"] = sorted(stats["nontrivial_keys"])
    for k in ("labels", "discarded_by_rule", "excluded_known"):
        stats[k] = dict(stats[k])
    return sub_name, shard, stats


# ---------------------------------------------------------------------------------------------------

def replay_file(prop_id, path, quiet=False):
    """Re-execute one saved case without Hypothesis.  Returns ('ok'|'violation'|'known'|'discard', info)."""
    _check_repo()
    mod = load_prop(prop_id)
    with open(path) as fh:
        rec = json.load(fh)
    sub = {s.name: s for s in mod.SUBS}.get(rec["subcheck"])
    if sub is None:
        raise RuntimeError(f"{path}: unknown subcheck {rec['subcheck']}")
    scratch = os.path.join(HOME, ".scratch", f"replay-{os.getpid()}")
    os.makedirs(scratch, exist_ok=True)
    cwd = os.getcwd()
    os.chdir(scratch)
    try:
        with warnings.catch_warnings():
            warnings.simplefilter("ignore")
            sub.run(rec["case"])
    except Discard as d:
        return "discard", d.reason
    except Violation as v:
        kf = match_finding(mod, prop_id, sub.name, rec["case"], v)
        if kf:
            return "known", (kf, v)
        return "violation", v
    finally:
        os.chdir(cwd)
        shutil.rmtree(scratch, ignore_errors=True)
    return "ok", None


def write_failure(prop_id, sub_name, fail, seed, tier):
    d = os.path.join(HOME, "failures", prop_id)
    os.makedirs(d, exist_ok=True)
    name = f"{sub_name}-{slug(fail['facet'])}-{case_hash(fail['case'])}.json"
    path = os.path.join(d, name)
    rec = {"property": prop_id, "subcheck": sub_name, "facet": fail["facet"], "detail": fail["detail"],
           "observed": fail.get("observed"), "expected": fail.get("expected"), "seed": seed, "tier": tier, "case": fail["case"]}
    with open(path, "w") as fh:
        fh.write(canon(rec))
    return os.path.relpath(path, HOME)


def main(argv):
    if len(argv) < 1:
        print(__doc__)
        return 2
    import logging

    logging.getLogger("matplotlib").setLevel(logging.ERROR)
    prop_id = argv[0].upper()
    t0 = time.time()
    seed = int(os.environ.get("VERIF_SEED", "1") or 1)
    try:
        mod = load_prop(prop_id)
    except Exception:
        traceback.print_exc()
        return 2

    if len(argv) >= 3 and argv[1] == "--replay":
        warnings.simplefilter("ignore")
        try:
            res, info = replay_file(prop_id, argv[2])
        except Exception:
            traceback.print_exc()
            return 2
        if res == "violation":
            print(f"replay: {info.facet}: {info.detail}")
            print(f"VIOLATION property={prop_id} replay={argv[2]}")
            return 1
        if res == "known":
            print(f"KNOWN-FINDING: property={prop_id} {info[0]} {info[1].facet}")
            return 0
        print(f"replay: {res} {info or ''}")
        return 0

    tier = argv[1] if len(argv) > 1 else os.environ.get("VERIF_TIER", "quick")
    if tier not in ("quick", "thorough"):
        print(f"unknown tier {tier}", file=sys.stderr)
        return 2
    only = os.environ.get("KVERIF_ONLY")  # debugging aid: run a subset of sub-checks
    scale = float(os.environ.get("KVERIF_SCALE", "1"))
    budget_s = float(os.environ.get("KVERIF_BUDGET_S", "150" if tier == "quick" else "1500"))
    shrink_cap_s = float(os.environ.get("KVERIF_SHRINK_S", "40" if tier == "quick" else "240"))

    violations = []  # (facet, replay path, detail)
    known_lines = []
    harness_errors = []

    # ---- replay tier: committed regression corpus
    replay_dir = os.path.join(HOME, "replays", prop_id)
    n_replayed = 0
    if os.path.isdir(replay_dir):
        for fn in sorted(os.listdir(replay_dir)):
            if not fn.endswith(".json"):
                continue
            p = os.path.join(replay_dir, fn)
            try:
                res, info = replay_file(prop_id, p)
            except Exception:
                harness_errors.append(f"replay {fn}: " + traceback.format_exc()[-2000:])
                continue
            n_replayed += 1
            if res == "violation":
                violations.append((info.facet, os.path.relpath(p, HOME), info.detail))
            elif res == "known":
                known_lines.append((info[0], info[1].facet))

    # ---- search tier
    tasks = []
    for sub in mod.SUBS:
        if only and sub.name not in only.split(","):
            continue
        n = int((sub.quick if tier == "quick" else sub.thorough) * scale)
        if n <= 0:
            continue
        shards = sub.shards or MAX_WORKERS
        shards = max(1, min(shards, n))
        per = -(-n // shards)
        cap = sub.max_shrink_s or shrink_cap_s
        for sh in range(shards):
            tasks.append((prop_id, sub.name, tier, seed, sh, per, budget_s, cap))

    merged = {}
    ctx = multiprocessing.get_context("spawn")
    with cf.ProcessPoolExecutor(max_workers=min(MAX_WORKERS, max(1, len(tasks))), mp_context=ctx) as ex:
        futs = [ex.submit(run_shard, *t) for t in tasks]
        for fu in cf.as_completed(futs):
            try:
                sub_name, shard, st = fu.result()
            except Exception:
                harness_errors.append(traceback.format_exc()[-2000:])
                continue
            m = merged.setdefault(sub_name, _new_stats())
            m["evaluations"] += st["evaluations"]
            m["nontrivial_keys"].update(st["nontrivial_keys"])
            for k in ("labels", "discarded_by_rule", "excluded_known"):
                m[k].update(st[k])
            m["inconclusive_budget"] += st["inconclusive_budget"]
            if len(m["samples"]) < 4:
                m["samples"].extend(st["samples"][: 4 - len(m["samples"])])
            m["failures"].extend(st["failures"])
            m["wall_s"] = max(m["wall_s"], st["wall_s"])
            harness_errors.extend(st["harness_errors"])

    # optional non-Hypothesis extras (exhaustive enumerations, fuzz campaigns)
    extra_cov = {}
    if hasattr(mod, "extra") and not only:
        try:
            extra_cov = mod.extra(tier, seed) or {}
            for fail in extra_cov.pop("failures", []):
                merged.setdefault(fail.get("sub", "extra"), _new_stats())["failures"].append(fail)
        except Exception:
            harness_errors.append("extra: " + traceback.format_exc()[-3000:])

    # ---- failures -> one report per (sub, facet)
    seen = set()
    for sub_name, m in sorted(merged.items()):
        for fail in sorted(m["failures"], key=lambda f: len(canon(f["case"]))):
            key = (sub_name, fail["facet"])
            if key in seen:
                continue
            seen.add(key)
            path = write_failure(prop_id, sub_name, fail, seed, tier)
            violations.append((f"{sub_name}:{fail['facet']}", path, fail["detail"]))

    # ---- known findings: re-run their replay files
    stale_known = []
    for f in open_findings(prop_id):
        rp = f.get("replay")
        if not rp:
            continue
        p = os.path.join(HOME, rp)
        try:
            res, info = replay_file(prop_id, p)
        except Exception:
            harness_errors.append(f"known finding {f['id']}: " + traceback.format_exc()[-2000:])
            continue
        if res == "known" and info[0] == f["id"]:
            known_lines.append((f["id"], f.get("what", info[1].facet)))
        elif res == "violation":
            violations.append((f"known-finding-replay-changed:{info.facet}", rp, info.detail))
        else:
            # the demonstration no longer reproduces (fixed upstream, or filtered out by the check): nothing is suppressed for it, say so
            stale_known.append(f"{f['id']}: replay {rp} -> {res}")
            print(f"NOTE: known finding {f['id']} does not reproduce from {rp} ({res}); the entry should be reviewed", file=sys.stderr)

    # ---- evidence
    total_eval = sum(m["evaluations"] for m in merged.values()) + int(extra_cov.get("evaluations", 0))
    all_keys = set()
    for sub_name, m in merged.items():
        all_keys.update(f"{sub_name}:{k}" for k in m["nontrivial_keys"])
    distinct = len(all_keys) + int(extra_cov.get("distinct_nontrivial", 0))
    samples = []
    for sub_name, m in sorted(merged.items()):
        for s in m["samples"][:2]:
            samples.append({"subcheck": sub_name, "case": json.loads(canon(s))})
    samples.extend(extra_cov.get("samples", []))
    per_sub = {}
    for sub_name, m in sorted(merged.items()):
        per_sub[sub_name] = {
            "evaluations": m["evaluations"],
            "distinct_nontrivial": len(m["nontrivial_keys"]),
            "labels": dict(sorted(m["labels"].items())),
            "discarded_by_rule": dict(m["discarded_by_rule"]),
            "excluded_known": dict(m["excluded_known"]),
            "inconclusive_budget": m["inconclusive_budget"],
            "max_shard_wall_s": round(m["wall_s"], 1),
        }
    about = {s.name: s.about for s in mod.SUBS}
    wall = time.time() - t0
    evidence = {
        "property_id": prop_id,
        "tier": tier,
        "seed": seed,
        "level": "exploration",
        "coverage": {
            "evaluations": total_eval,
            "distinct_nontrivial": distinct,
            "rule": getattr(mod, "RULE", ""),
            "samples": samples[:12],
            "subchecks": per_sub,
            "subcheck_descriptions": about,
            "replayed_regression_cases": n_replayed,
            "known_findings_reported": [k for k, _ in known_lines],
            "known_findings_not_reproduced": stale_known,
            "violations_reported": [{"facet": f, "replay": p, "detail": d[:500]} for f, p, d in violations],
            "harness_errors": len(harness_errors),
            "exhaustive": bool(extra_cov.get("exhaustive", False)),
            **{k: v for k, v in extra_cov.items() if k not in ("evaluations", "distinct_nontrivial", "samples", "exhaustive")},
        },
        "assumptions": list(getattr(mod, "ASSUMPTIONS", [])),
        "wall_s": round(wall, 2),
        "violations": len(violations),
    }
    if not only and not os.environ.get("KVERIF_NO_EVIDENCE"):
        os.makedirs(os.path.join(HOME, "evidence"), exist_ok=True)
        with open(os.path.join(HOME, "evidence", f"{prop_id}.json"), "w") as fh:
            json.dump(evidence, fh, indent=1, default=str)
            fh.write("\n")

    # ---- report
    for sub_name, ps in per_sub.items():
        print(f"[{prop_id}/{sub_name}] evaluations={ps['evaluations']} nontrivial={ps['distinct_nontrivial']} "
              f"discarded={sum(ps['discarded_by_rule'].values())} excluded_known={sum(ps['excluded_known'].values())} "
              f"inconclusive={ps['inconclusive_budget']} wall={ps['max_shard_wall_s']}s")
    if extra_cov:
        print(f"[{prop_id}/extra] " + " ".join(f"{k}={v}" for k, v in extra_cov.items() if isinstance(v, (int, float, bool))))
    seen_k = set()
    for kid, what in known_lines:
        if kid in seen_k:
            continue
        seen_k.add(kid)
        print(f"KNOWN-FINDING: property={prop_id} {kid} {what}")
    for facet, path, detail in violations:
        print(f"  violation facet={facet}: {detail[:300]}")
        print(f"VIOLATION property={prop_id} replay={path}")
    print(f"[{prop_id}] tier={tier} seed={seed} evaluations={total_eval} distinct_nontrivial={distinct} "
          f"violations={len(violations)} wall={wall:.1f}s")
    if harness_errors:
        for h in harness_errors[:3]:
            print("HARNESS ERROR:\n" + h, file=sys.stderr)
        if not violations:
            return 2
    return 1 if violations else 0


if __name__ == "__main__":
    sys.exit(main(sys.argv[1:]))
