#!/bin/bash
# like seedtest.sh but on a scratch worktree of /repo's HEAD (KVERIF_REPO), so /repo itself is never modified and several can run in parallel:
#   tools/seedtest_wt.sh <dir with patch.diff> <Cnn> [more Cnn...]      (TIER=quick|thorough, extra env is passed through)
D="$(readlink -f "$1")"; shift
W=/tmp/stwt_$$_$RANDOM
git -C /repo worktree add -q --detach $W HEAD || exit 2
trap 'git -C /repo worktree remove --force $W' EXIT
( cd $W && { git apply $D/patch.diff || patch -p1 --fuzz=3 < $D/patch.diff || { echo "PATCH DOES NOT APPLY"; exit 2; }; } ) || exit 2
cd /verif
for P in "$@"; do
  L=/tmp/seedtest_$(basename $D)_$P.log
  S=$(date +%s); KVERIF_REPO=$W KVERIF_NO_EVIDENCE=1 ./check $P ${TIER:-quick} > $L 2>&1; rc=$?
  echo "$(basename $D) $P exit=$rc in $(( $(date +%s)-S ))s: $(grep -c '^VIOLATION' $L) violation lines"; grep -B1 '^VIOLATION' $L | grep -v '^--' | cut -c1-260 | head -8
done
