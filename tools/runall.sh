#!/bin/bash
# tools/runall.sh [tier] [seed]: run every claimed check, one line per property (exit code, wall time, VIOLATION / KNOWN-FINDING counts)
TIER="${1:-quick}"; SEED="${2:-1}"; cd "$(dirname "$0")/.."
for P in $(python3 -c "import json;print(' '.join(c['property_id'] for c in json.load(open('MANIFEST.json'))['checks']))"); do
  S=$(date +%s); VERIF_SEED=$SEED ./check $P $TIER > /tmp/runall_$P.log 2>&1; rc=$?
  echo "$P exit=$rc $(( $(date +%s)-S ))s viol=$(grep -c '^VIOLATION' /tmp/runall_$P.log) known=$(grep -c '^KNOWN-FINDING' /tmp/runall_$P.log) $(grep '^\['$P'\]' /tmp/runall_$P.log | tail -1 | cut -c1-120)"
done
