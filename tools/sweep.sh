#!/bin/bash
# tools/sweep.sh <Cnn> <seed> [<seed> ...]: quick tier for several seeds, prints only the violation facets (quietness sweep)
P=$1; shift; cd "$(dirname "$0")/.."
for sd in "$@"; do
  VERIF_SEED=$sd KVERIF_NO_EVIDENCE=1 KVERIF_SHRINK_S=${KVERIF_SHRINK_S:-5} ./check $P quick > /tmp/sweep_$P.log 2>&1; rc=$?
  echo "$P seed=$sd exit=$rc"; grep -B1 "^VIOLATION" /tmp/sweep_$P.log | grep -v "^VIOLATION\|^--" | cut -c1-400; grep -A12 "HARNESS ERROR" /tmp/sweep_$P.log | head -14
done
