#!/bin/bash
# tools/killmatrix.sh [parallelism]: every seeded change against the quick check of its own property (and the other properties named below), on scratch worktrees
cd "$(dirname "$0")/.."
declare -A EXTRA=( [C01-b]="C03" [C05-c]="C03" [C15-c]="C11" [C03-a]="C04" [C14-a]="C02" [C01-a]="C10 C15" [C07-c]="C03" )
for d in seeded/*/; do s=$(basename $d); echo "$s ${s%-*} ${EXTRA[$s]}" | sed 's/ *$//'; done | xargs -P ${1:-4} -L1 bash -c 'tools/seedtest_wt.sh seeded/$0 "$@" 2>&1 | grep "exit="'
