#!/usr/bin/env python3
import json,sys
for p in sys.argv[1:]:
    r=json.load(open(p)); print(p); print(" facet:",r["facet"]); print(" detail:",r["detail"][:600]); print(" case:",json.dumps(r["case"])[:3000])
