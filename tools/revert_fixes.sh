#!/bin/bash
# tools/revert_fixes.sh: sensitivity test - for every "fix:" commit recorded in known_findings.json build a scratch tree = /repo HEAD with that
# one commit reverted, run the quick tier of the property it was recorded for against it (KVERIF_REPO), expect exit 1.  Worktrees are removed.
cd "$(dirname "$0")/.."
python3 - <<'PY' > /tmp/fixlist.txt
import json
for f in json.load(open('known_findings.json'))['findings']:
    if f['status']=='fixed': print(f['commit'], f['property'])
PY
while read C P; do
  W=/tmp/rv_$C
  git -C /repo worktree add -q --detach $W HEAD 2>/dev/null || { echo "$C $P worktree-failed"; continue; }
  if (cd $W && git revert --no-commit $C >/dev/null 2>&1); then
    S=$(date +%s); KVERIF_REPO=$W KVERIF_NO_EVIDENCE=1 ./check $P quick > /tmp/rv_$C.log 2>&1; rc=$?
    echo "$C $P exit=$rc $(( $(date +%s)-S ))s viol=$(grep -c '^VIOLATION' /tmp/rv_$C.log) :: $(git -C /repo log --format=%s -1 $C | cut -c1-90)"
  else
    echo "$C $P revert-conflict :: $(git -C /repo log --format=%s -1 $C | cut -c1-90)"
  fi
  git -C /repo worktree remove --force $W
done < /tmp/fixlist.txt
rm -rf failures
