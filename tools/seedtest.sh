#!/bin/bash
# run checks against a seeded change applied to /repo, then undo: tools/seedtest.sh <dir with patch.diff> <Cnn> [tier] [more Cnn...]
D="$(readlink -f "$1")"; shift
cd /repo && { git apply $D/patch.diff || patch -p1 --fuzz=3 < $D/patch.diff || { echo "PATCH DOES NOT APPLY"; git checkout -- .; exit 2; }; }
cd /verif
for P in "$@"; do
  S=$(date +%s); KVERIF_NO_EVIDENCE=1 ./check $P ${TIER:-quick} > /tmp/seedtest_$P.log 2>&1; rc=$?
  echo "$P exit=$rc in $(( $(date +%s)-S ))s: $(grep -c '^VIOLATION' /tmp/seedtest_$P.log) violation lines"; grep -B1 '^VIOLATION' /tmp/seedtest_$P.log | head -8
done
git -C /repo checkout -- . ; git -C /repo status --short | grep -v '^??'
