#!/bin/bash
# tools/mutant.sh <file relative to /repo> <python-re pattern> <replacement> <Cnn> [more Cnn]: apply an in-place substitution, run quick checks, revert
F="$1"; PAT="$2"; REP="$3"; shift 3
cd /repo && /venv/bin/python - "$F" "$PAT" "$REP" <<'PY' || { echo "pattern not found"; exit 2; }
import re,sys
f,pat,rep=sys.argv[1:4]
s=open(f).read()
n=len(re.findall(pat,s))
if n!=1: print("matches:",n); sys.exit(1)
open(f,'w').write(re.sub(pat,lambda m: rep,s,count=1))
PY
git -C /repo diff | grep '^[-+]' | grep -v '^+++\|^---'
cd /verif
for P in "$@"; do
  S=$(date +%s); KVERIF_NO_EVIDENCE=1 ./check $P ${TIER:-quick} > /tmp/mutant_$P.log 2>&1; rc=$?
  echo "$P exit=$rc in $(( $(date +%s)-S ))s"; grep -B1 '^VIOLATION' /tmp/mutant_$P.log | grep -v '^VIOLATION\|^--' | cut -c1-260 | head -4
done
git -C /repo checkout -- .
