#!/bin/bash
# tools/killmatrix2.sh [parallelism]: the seeded changes of rounds 3 and 4 (d, e, f, g) against the quick check of their own property and of the neighbours named below
cd "$(dirname "$0")/.."
declare -A EXTRA=( [C03-e]="C19" [C05-e]="C03" [C12-e]="C19" [C01-g]="C19" [C02-f]="C13" [C07-g]="C11" [C13-f]="C09" [C14-f]="C02" [C14-g]="C15" [C15-f]="C06" [C17-g]="C09" [C06-g]="C14" [C06-f]="C01" [C19-f]="C12" )
for d in seeded/C*-[d-g]/; do s=$(basename $d); echo "$s ${s%-*} ${EXTRA[$s]}" | sed 's/ *$//'; done | xargs -P ${1:-4} -L1 bash -c 'tools/seedtest_wt.sh seeded/$0 "$@" 2>&1 | grep "exit="'
