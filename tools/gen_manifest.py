#!/usr/bin/env python3
"""Regenerates MANIFEST.json from the table below (keeps it valid at all times)."""
import json, os
HERE = os.path.dirname(os.path.dirname(os.path.abspath(__file__)))
props = [json.loads(l) for l in open(os.path.join(HERE, "properties.jsonl"))]

# id -> (technique, level text, level_note, design_ref)
CLAIMED = {
 "C12": ("Hypothesis op-list generation (fill/read/rebin) vs. independent searchsorted reference model, plus exhaustive small-alphabet enumeration",
         "Generated-input search: every read of data/underflow/overflow/n_entries/raw_data after any generated history of fills, reads and rebins is compared exactly with a from-scratch reference binning; exploration level because the input space (float edges x entry multisets x histories) is infinite; a complete enumeration of a 5-7 value alphabet (<=4 edges, <=3-4 entries) backs up the boundary cases.",
         "Trusts numpy.searchsorted/sort as the reference; finite float entries only; set_bins (manual heights) not generated.", "DESIGN.md §4 C12"),
 "C04": ("Hypothesis op-list histories on Nexus/node API vs. from-scratch reference interpreter + call-counter recomputation oracle",
         "Generated-input search over graph programs and histories (create/assign/func=/replace/Nexus.add existing_behavior/Tuple[i]=/add_dependency incl. cycle-closing/freeze/unfreeze/reads): every read is compared exactly with a from-scratch evaluation of the harness' own graph description, and wrapped user callables may run at most once per operation and only if a transitive input changed. Exploration level: the space of graphs x histories is unbounded.",
         "Trusts the ~100-line reference interpreter in kverif/props/c04.py; integer-valued nodes; freeze only directly after a read; replace/setitem/add_child only generated acyclic (only Nexus.add_dependency/Nexus.add promise a cycle check); one open known finding (KF-C04-1, Fallback) is excluded by signature.", "DESIGN.md §4 C04"),
 "C16": ("Hypothesis set/read histories on ConfidenceLevel and generated profile/contour requests vs. scipy.stats.chi2 / closed forms",
         "Generated-input search: (a) construct+set+read histories on one ConfidenceLevel over n=1..50 with tails near CL->0 and CL->1, judged in CL space against chi2(n).cdf, erf and 1-exp(-s^2/2); (b) monotonicity on sorted samples and the tabulated 1/2/3-sigma values; (c) the cl actually handed to iminuit.mncontour (spied from the harness) and the level objects of ContoursProfiler; (d) arrow specs of profile(cl/low/high, arrows) for both backends on analytic quadratic costs (central vs one-sided 2cl-1 rule, y-y_min=sigma_i^2, analytic x crossing).",
         "Trusts scipy.stats.chi2 as reference; CL-space absolute tolerance 2e-15 (+1e-12 relative to min(cl,1-cl)); ndim is never changed on a live object; arrow x within 2e-2 sigma.", "DESIGN.md §4 C16"),
 "C17": ("Hypothesis-generated values/uncertainties (carry cases constructed) and fitted problems; printed strings parsed back and judged with exact Decimal arithmetic",
         "Generated-input search with validity predicates on the *printed text*: displayed uncertainty == correctly rounded true uncertainty at n significant digits; |displayed value - true| <= half a unit of the uncertainty's last displayed digit; value shown down to that digit when |v|>=u; fixed marker; plain == LaTeX; report()/file preface/result dict of fitted xy/indexed/hist problems (fixed, constrained, asymmetric, changed-after-fit) list exactly the names/values/uncertainties/correlations/gof/ndf/probability the fit holds, each within half a unit of its own last digit.",
         "Trusts python's decimal module for reference rounding; held state is read before and after report() because MINOS inside report may move the optimum within minimizer tolerance; one open known finding (KF-C17-1: compact table double rounding, <=0.55 unit) excluded by bug model.", "DESIGN.md §4 C17"),
 "C13": ("Hypothesis-generated edges x density families x parameters x bin_evaluation x density flag vs closed-form integrals and closed-form (Euler-Maclaurin) quadrature errors",
         "Generated-input search with an analytic oracle: bin contents read through HistParametricModel.data and HistFit.model (incl. re-reads after parameter change, rebin, data replacement with same shape/different edges) are compared with F(b)-F(a); for polynomial densities the exact error of midpoint/trapezoid/Simpson is known in closed form, which pins exactness (degree 1/1/3) and convergence order at rounding precision without re-using the implementation's node/weight formulas; other families use the textbook error bounds with analytic derivative maxima; scipy-quad within 1e-7.",
         "Trusts the closed-form antiderivatives in kverif/props/c13.py; edges with widths >= 1e-3, |x| <= 10; N counted by the harness.", "DESIGN.md §4 C13"),
 "C02": ("Hypothesis op-list histories on every container kind vs. independent numpy assembly of the total covariance",
         "Generated-input search over histories (add_error / add_matrix_error cov|cor+err / disable / enable / value changes through every setter, fill, rebin, model parameter and x changes / reads of err, cov_mat, cor_mat, cov_mat_inverse, get_total_error with every axis spelling) on indexed, xy, histogram, unbinned containers and the three parametric models; after every read the result is compared with sum_enabled (sigma sigma^T) o rho assembled by the harness from its own source list and current values (signed relative references), plus symmetry, PSD, inverse consistency and bit-exact restoration by disable+enable.",
         "Trusts the ~30-line numpy reference in kverif/props/c02.py; sizes 1..6; magnitudes 1e-2..1e2; histogram rebin keeps the number of bins; inverse judged only for cond <= 1e8.", "DESIGN.md §4 C02"),
 "C01": ("Hypothesis-generated problem specs (all fit types x all built-in cost identifiers x source mixes x constraints x parameter points) vs. numpy reference cost",
         "Generated-input search: a JSON problem spec is built into a real fit through the public API and, independently, evaluated by a numpy/scipy reference written from the documented formulas (covariance assembly incl. signed relative references and model-referenced sources at the current parameters, x->y projection with the analytic slope, log-determinant, constraint costs, Poisson/Gaussian NLL and ratios, Gauss approximation, unbinned NLL); cost_function_value, total_cov_mat, total_error and the model are compared at several parameter points before and after do_fit; metamorphic twins check 'disabled == never declared' and order independence.",
         "Trusts kverif/fitspec.py Ref (Cholesky-based); ROUND tolerance scaled by cond(V)/1e3 plus a per-point bound for kafe2's finite-difference slope; non-PD / cond>1e6 cases discarded (counted); Poisson identifiers without sources; histogram fits with exact bin integration and without model-relative sources.", "DESIGN.md §4 C01"),
 "C10": ("Hypothesis-generated single fits and multi-fits with fix/release histories and constraints vs. documented ndf/gof/probability formulas (numpy/scipy reference)",
         "Generated-input search: ndf is compared exactly with N_data + constraint rows - parameters + fixed after every generated fix/release/do_fit step; goodness of fit with an independent evaluation of cost minus saturated cost per cost class (chi2 incl. constraint cost and excluding the determinant term, pointwise, no-errors, Poisson/Gaussian NLL and ratios, Gauss approximation, None for unbinned); chi2 probability with scipy.stats.chi2.sf of the determinant-free chi2; result dict consistent; MultiFits of 1-3 mixed members with shared parameter names and constraints on both levels.",
         "Trusts kverif/fitspec.py Ref and scipy.stats; PD covariance with cond<=1e6 (else discarded); x-projected covariances carry a first-order bound for kafe2's finite-difference slope.", "DESIGN.md §4 C10"),
 "C05": ("Hypothesis-generated linear problems (xy basis-function models, indexed linear maps, two-member multi-fits) fitted with both backends vs. closed-form GLS",
         "Generated-input search: do_fit() results (values, covariance with zero rows/columns for fixed parameters, errors, correlations, chi2, cost = chi2 + ln det V, asymmetric errors = +-sigma, member sub-blocks of multi-fits) are compared with the closed-form generalised-least-squares solution in which constraints are extra measurement rows and fixed parameters deleted columns; starts up to 10 sigma away; iminuit and scipy.",
         "Trusts kverif/fitspec.py Ref.gls (numpy); MINIMIZER tolerances 0.03 sigma / 1 % covariance / 1e-3 chi2 (>= 5x measured worst case, << effect of a real defect); cond(V)<=1e6, cond(H)<=1e8.", "DESIGN.md §4 C05"),
 "C06": ("Hypothesis-generated well-posed nonlinear problems fitted with both backends; validity predicates against the independent reference cost",
         "Generated-input search: for problems whose reference cost has a well-conditioned minimum near the truth (operational well-posedness, rate reported), the reported optimum must not be undercut by more than 1e-3 at 30 displaced points per backend within the limits (0.01/0.1/0.5 sigma, random directions), iminuit and scipy must agree within 0.05 sigma, fixed parameters keep their exact values, limited ones stay in the closed interval, and the iterative treatment must be a fixed point (refit with the covariance frozen at the reported optimum moves < 0.05 sigma). Families: exponential, power law, Gaussian/Lorentzian peak, sinusoid, logistic (xy, with x-errors and model-relative errors), histogram Poisson / Gauss-approximation, unbinned, nonlinear indexed maps.",
         "Trusts kverif/fitspec.py Ref.cost as the full parameter-dependent cost; start values within 5 % (frequencies 1.5 %) of the truth; active limits only on amplitude-like parameters; one open known finding (KF-C06-1: scipy + limits stops early) excluded by signature.", "DESIGN.md §4 C06"),
 "C07": ("Hypothesis-generated quadratic surfaces (adapter level, errordef, fixed subsets) and fitted linear / well-posed nonlinear problems vs. closed forms and the independently re-minimised reference cost",
         "Generated-input search: adapter level - covariance = 2*errordef*H^-1 on the free block with exact zero rows/columns, errors, correlation, Hessian, profile points, asymmetric errors, contour points against closed forms of a conditional quadratic form; fit level - reported covariance vs 2 H^-1 of the reference cost (generalised eigenvalues), errors/correlations consistent with the reported matrix, every returned profile point vs the reference cost re-minimised with the parameter pinned (continuation + BFGS + Nelder-Mead), asymmetric errors at profile rise 1 +- 0.1, contour points at rise n^2, XYFit.error_band vs sqrt(diag(J C J^T)) with analytic J and the reported C.",
         "Trusts the reference cost and scipy.optimize for re-minimisation (an upper bound of the profile: a reference value above kafe2's is 'inconclusive', never a violation); operational well-posedness filters (PD Hessian cond<=5e3, parameters determined to 30 %, no relative uncertainty on near-zero values, roughly parabolic & unimodal profiles) with reported discard rates; five open known findings (KF-C07-1..5: scipy generic asymmetric errors / profile / numdifftools covariance, isolated bad MINUIT profile/contour points) excluded by signature or bug model.", "DESIGN.md §4 C07"),
 "C08": ("Hypothesis op-list histories of post-fit queries on fitted problems, state invariant against the post-fit snapshot",
         "Generated-input search over histories (with repetition) of covariance / correlation / Hessian / asymmetric errors / profiles by sigma, cl, low+high / contours / error band / report / result dict / plot / to_file / save_state on fitted linear and nonlinear problems with fixed, limited and constrained parameters for both backends: after every query parameter values (0.02 sigma), cost (1e-2), uncertainties (2 %), did_fit, minimizer-vs-graph parameter values and 'reported cost == reference cost at the held parameters' are compared with the snapshot taken right after do_fit (no cumulative drift); queries that raise must leave the state unchanged too; repeated questions must give the same answer.",
         "Trusts the reference cost for the consistency facet; fits within 2 sigma of a limit are discarded; scipy contours only in the thorough tier.", "DESIGN.md §4 C08"),
 "C03": ("Hypothesis op-list histories over all public mutators and reads of all public read-only properties; differential against a fresh fit built from the folded configuration",
         "Generated-input search: the harness folds each generated history (add/disable/enable sources, constraints, set/fix/release/limit/unlimit parameters, data replacement by array or container with or without sources, do_fit, reads anywhere) into a configuration spec; for every read a fresh fit is built from that configuration through the public API with no intermediate reads and asked for the same observable first; 30-64 observables per fit type are compared at rounding precision, minimisation results at MINIMIZER tolerance when no mutator followed the last do_fit; a final sweep reads every observable.",
         "Reference = kafe2 itself in a fresh object (the property is stated as this differential); configuration semantics for data replacement documented in ASSUMPTIONS; non-PD checkpoints skipped and counted.", "DESIGN.md §4 C03"),
}
NOT_YET = "check not built yet in this session (work in progress; see DESIGN.md §10 build order)"

checks = []
for p in props:
    i = p["id"]
    if i in CLAIMED:
        tech, text, note, ref = CLAIMED[i]
        checks.append({
            "property_id": i,
            "quick_cmd": f"./check {i} quick",
            "thorough_cmd": f"./check {i} thorough",
            "evidence_file": f"evidence/{i}.json",
            "replay_cmd_template": f"./check {i} --replay {{path}}",
            "engine": "kverif",
            "level_claimed": {"category": "exploration", "text": text, "design_ref": ref},
            "level_note": note,
            "technique": tech,
        })
manifest = {
 "version": 1,
 "setup_cmd": "./check --setup",
 "hooks": {"guard": "KAFE2_VERIF", "enable": "no hooks: kafe2 is pure Python and is imported from /repo's working tree (PYTHONPATH=/repo) by every check; nothing in /repo is instrumented",
           "baseline_off_cmd": "cd /repo && /venv/bin/python -m pytest -ra -q -p no:cacheprovider --timeout=900 --continue-on-collection-errors",
           "source_commits": [], "add_only": True},
 "engines": [{"name": "kverif", "path": "kverif/runner.py", "serves_properties": sorted(CLAIMED),
              "kind_free_text": "Hypothesis-driven property-based testing (sharded over 16 processes, seeded by VERIF_SEED) against reference models / metamorphic relations / validity predicates; shrunk failures become JSON replay files"}],
 "checks": checks,
 "notes": "All checks: ./check <Cnn> quick|thorough; replay: ./check <Cnn> --replay <file>. Exit 0 held / 1 VIOLATION / 2 harness error. Known findings: known_findings.json (read-only at run time).",
 "not_applicable": [{"property_id": p["id"], "reason": NOT_YET} for p in props if p["id"] not in CLAIMED],
}
json.dump(manifest, open(os.path.join(HERE, "MANIFEST.json"), "w"), indent=1)
print("claimed:", sorted(CLAIMED), "not_applicable:", len(manifest["not_applicable"]))
