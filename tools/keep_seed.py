#!/usr/bin/env python3
"""tools/keep_seed.py <src dir> <seed id> <property> <caught: yes|no|partly> <what I ran / which check caught it>"""
import json, os, shutil, sys
src, sid, prop, caught, note = sys.argv[1:6]
dst = os.path.join(os.path.dirname(os.path.dirname(os.path.abspath(__file__))), "seeded", sid)
os.makedirs(dst, exist_ok=True)
for f in ("patch.diff", "demo.py"):
    shutil.copy(os.path.join(src, f), os.path.join(dst, f))
meta = json.load(open(os.path.join(src, "meta.json")))
meta.update({"property": prop, "origin": "independent sub-agent given only the property text and a scratch worktree",
             "verified_by_me": "tools/verify_seed.sh: demo exit 0 without / exit 1 with the change; pinned suite 841 passed, 1 failed (the always-failing test) with the change",
             "caught_by_checks": caught, "what_i_ran": note})
json.dump(meta, open(os.path.join(dst, "meta.json"), "w"), indent=1)
print("kept", dst)
