#!/bin/bash
# run the pinned repository test-suite on a tree (default /repo); expect "1 failed, 841 passed"
T="${1:-/repo}"
cd "$T" && PYTHONPATH="$T" MPLBACKEND=Agg /venv/bin/python -m pytest -q -p no:cacheprovider --timeout=900 --continue-on-collection-errors kafe2/test 2>&1 | tail -4
cd "$T" && git status --short | grep -v '^??' | head
