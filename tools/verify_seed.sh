#!/bin/bash
# verify a seeded change: tools/verify_seed.sh <dir with patch.diff+demo.py>
# - demo passes on current /repo HEAD, fails with the patch; pinned suite still 841 pass with the patch
D="$(readlink -f "$1")"; W=/tmp/vs_$$
git -C /repo worktree add -q --detach $W HEAD || exit 2
trap 'git -C /repo worktree remove --force $W' EXIT
cd $W
echo "--- demo without change:"; PYTHONPATH=$W MPLBACKEND=Agg /venv/bin/python $D/demo.py 2>&1 | tail -3; echo "exit=${PIPESTATUS[0]}"
git apply $D/patch.diff || patch -p1 --fuzz=3 < $D/patch.diff || { echo "PATCH DOES NOT APPLY"; exit 2; }
echo "--- demo with change:"; PYTHONPATH=$W MPLBACKEND=Agg /venv/bin/python $D/demo.py 2>&1 | tail -5; echo "exit=${PIPESTATUS[0]}"
echo "--- suite with change:"; PYTHONPATH=$W MPLBACKEND=Agg /venv/bin/python -m pytest -q -p no:cacheprovider --timeout=900 kafe2/test 2>&1 | tail -2
