#!/bin/bash
# tools/process_seed.sh <dir with patch.diff+demo.py+meta.json> <Cnn> [more Cnn]: verify (demo without / with, pinned suite with) + run the quick checks on a scratch worktree
D="$(readlink -f "$1")"; shift
L=/tmp/process_$(basename $(dirname $D))_$(basename $D).log
{ /verif/tools/verify_seed.sh $D; /verif/tools/seedtest_wt.sh $D "$@"; } > $L 2>&1
echo "== $D"; grep -A2 "^--- demo\|^--- suite" $L | grep -v "^--$" | cut -c1-200; grep "exit=.* in .*s:" -A3 $L | cut -c1-300
